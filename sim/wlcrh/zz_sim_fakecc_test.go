package ringhash

// Recording fake balancer.ClientConn / SubConn for the in-package LB worlds
// of WLC (own copy; sim/wl has a similar one for its package).
//
// Contract kept by the harness (balancer API): every call INTO the policy
// (UpdateClientConnState, ResolverError, ExitIdle, Close, SubConn state and
// health listeners) is made by the run's root goroutine, one at a time. What
// the policy asks of the channel (Connect, Shutdown, RegisterHealthListener)
// only appends work to simCC.queue, which the root goroutine drains with
// settle() after every step: deliveries are asynchronous and serialised, as
// with the real channel's callback serializer. Pick()/Done() and the policy's
// own goroutines (tickers, endpointsharding's ExitIdle goroutines, the ORCA
// producer) run concurrently. All bookkeeping is lock-free (detrt: code
// between two synchronisation operations is atomic).

import (
	"context"
	"fmt"
	"testing/synctest"
	"time"

	v3orcapb "github.com/cncf/xds/go/xds/data/orca/v3"
	v3orcaservicepb "github.com/cncf/xds/go/xds/service/orca/v3"
	"google.golang.org/grpc"
	"google.golang.org/grpc/balancer"
	"google.golang.org/grpc/connectivity"
	estats "google.golang.org/grpc/experimental/stats"
	"google.golang.org/grpc/internal"
	istats "google.golang.org/grpc/internal/stats"
	"google.golang.org/grpc/internal/zzverif/core"
	"google.golang.org/grpc/metadata"
	"google.golang.org/grpc/resolver"
	"google.golang.org/grpc/status"
)

type simCC struct {
	internal.EnforceClientConnEmbedding
	e     *core.Env
	subs  []*simSC
	queue []func()
	// last published state
	nStates int
	last    balancer.State
	// hooks (synchronous, inside the policy's call; must not call the policy)
	onState   func(s balancer.State)
	onConnect func(sc *simSC)
	onDeliver func(sc *simSC, s connectivity.State)
	// connectOutcome decides what a Connect() leads to (default READY).
	connectOutcome func(sc *simSC) connectivity.State
	mr             estats.MetricsRecorder
	resolveNows    int
}

func newSimCC(e *core.Env) *simCC {
	return &simCC{e: e, mr: istats.NewMetricsRecorderList(nil)}
}

type simSC struct {
	internal.EnforceSubConnEmbedding
	cc       *simCC
	id       int
	addr     string
	listener func(balancer.SubConnState)
	health   func(balancer.SubConnState)
	state    connectivity.State // last delivered
	shut     bool
	connects int
	// ORCA producer cache, as in the real channel: one producer per builder
	prods map[balancer.ProducerBuilder]*simProd
	// streams opened by producers on this subchannel that have not ended
	streams []*simOOBStream
}

type simProd struct {
	p     balancer.Producer
	close func()
	refs  int
}

func (sc *simSC) String() string { return fmt.Sprintf("sc%d(%s)", sc.id, sc.addr) }

func (cc *simCC) NewSubConn(addrs []resolver.Address, opts balancer.NewSubConnOptions) (balancer.SubConn, error) {
	if len(addrs) == 0 {
		return nil, fmt.Errorf("simcc: no addresses")
	}
	sc := &simSC{cc: cc, id: len(cc.subs), addr: addrs[0].Addr, listener: opts.StateListener, state: connectivity.Idle, prods: map[balancer.ProducerBuilder]*simProd{}}
	cc.subs = append(cc.subs, sc)
	cc.e.Logf("NewSubConn sc%d %s", sc.id, sc.addr)
	return sc, nil
}

func (cc *simCC) RemoveSubConn(sc balancer.SubConn) { sc.Shutdown() }
func (cc *simCC) UpdateAddresses(balancer.SubConn, []resolver.Address) {
	panic("simcc: UpdateAddresses is not expected")
}
func (cc *simCC) UpdateState(s balancer.State) {
	cc.nStates++
	cc.last = s
	cc.e.Logf("UpdateState #%d %v %T", cc.nStates, s.ConnectivityState, s.Picker)
	if cc.onState != nil {
		cc.onState(s)
	}
}
func (cc *simCC) ResolveNow(resolver.ResolveNowOptions) {
	cc.resolveNows++
	cc.e.Logf("ResolveNow")
}
func (cc *simCC) Target() string                          { return "sim:///wlc" }
func (cc *simCC) MetricsRecorder() estats.MetricsRecorder { return cc.mr }

// deliver passes a connectivity state to the policy (root goroutine only).
func (sc *simSC) deliver(s connectivity.State, err error) {
	if sc.shut && s != connectivity.Shutdown {
		return
	}
	if s != connectivity.Ready {
		// the transport is gone: its streams end
		for _, st := range sc.streams {
			st.end(status.Error(14, "simcc: connection lost"))
		}
	}
	if sc.cc.onDeliver != nil {
		sc.cc.onDeliver(sc, s)
	}
	sc.state = s
	sc.health = nil // a connectivity change invalidates the health listener
	sc.cc.e.Logf("sc%d <- %v", sc.id, s)
	sc.listener(balancer.SubConnState{ConnectivityState: s, ConnectionError: err})
}

func (sc *simSC) Connect() {
	sc.connects++
	sc.cc.e.Logf("sc%d.Connect (state %v)", sc.id, sc.state)
	if sc.cc.onConnect != nil {
		sc.cc.onConnect(sc)
	}
	if sc.shut {
		return
	}
	out := connectivity.Ready
	if sc.cc.connectOutcome != nil {
		out = sc.cc.connectOutcome(sc)
	}
	sc.cc.queue = append(sc.cc.queue, func() {
		if sc.shut || sc.state != connectivity.Idle {
			return
		}
		sc.deliver(connectivity.Connecting, nil)
		sc.cc.queue = append(sc.cc.queue, func() {
			if sc.shut || sc.state != connectivity.Connecting {
				return
			}
			if out == connectivity.Connecting {
				return // the attempt hangs until the scenario finishes it
			}
			if out == connectivity.Ready {
				sc.deliver(connectivity.Ready, nil)
			} else {
				sc.deliver(connectivity.TransientFailure, fmt.Errorf("simcc: connection refused"))
			}
		})
	})
}

func (sc *simSC) UpdateAddresses([]resolver.Address) { panic("simcc: UpdateAddresses is not expected") }

func (sc *simSC) Shutdown() {
	sc.cc.e.Logf("sc%d.Shutdown", sc.id)
	if sc.shut {
		return
	}
	sc.shut = true
	// the channel ends the streams of the subchannel and closes its producers
	for _, st := range sc.streams {
		st.end(status.Error(14, "simcc: subchannel shut down"))
	}
	sc.cc.queue = append(sc.cc.queue, func() { sc.deliver(connectivity.Shutdown, nil) })
}

// RegisterHealthListener: without a health-check config the real channel
// reports READY to the listener asynchronously; a listener registered while
// the subchannel is not READY is dropped.
func (sc *simSC) RegisterHealthListener(l func(balancer.SubConnState)) {
	sc.cc.e.Logf("sc%d.RegisterHealthListener (state %v)", sc.id, sc.state)
	if sc.state != connectivity.Ready || sc.shut {
		return
	}
	sc.health = l
	sc.cc.queue = append(sc.cc.queue, func() {
		if sc.shut || sc.state != connectivity.Ready || sc.health == nil {
			return
		}
		sc.cc.e.Logf("sc%d <- health READY", sc.id)
		sc.health(balancer.SubConnState{ConnectivityState: connectivity.Ready})
	})
}

func (sc *simSC) GetOrBuildProducer(pb balancer.ProducerBuilder) (balancer.Producer, func()) {
	pr := sc.prods[pb]
	if pr == nil {
		p, cl := pb.Build(&simCCI{sc: sc})
		pr = &simProd{p: p, close: cl}
		sc.prods[pb] = pr
		sc.cc.e.Logf("sc%d producer built", sc.id)
	}
	pr.refs++
	done := false
	return pr.p, func() {
		if done {
			return
		}
		done = true
		pr.refs--
		if pr.refs == 0 {
			delete(sc.prods, pb)
			sc.cc.e.Logf("sc%d producer closed", sc.id)
			pr.close()
		}
	}
}

// settle lets everything runnable run and drains the delivery queue, until
// the bubble is quiescent with an empty queue. Root goroutine only.
func (cc *simCC) settle() {
	for guard := 0; guard < 10000; guard++ {
		synctest.Wait()
		if len(cc.queue) == 0 {
			return
		}
		f := cc.queue[0]
		cc.queue = cc.queue[1:]
		f()
	}
	panic("simcc: settle does not converge")
}

// ---- the grpc.ClientConnInterface a producer gets: streams of scripted ORCA reports ----

type simCCI struct{ sc *simSC }

func (c *simCCI) Invoke(context.Context, string, any, any, ...grpc.CallOption) error {
	return status.Error(12, "simcc: unary calls are not supported")
}

func (c *simCCI) NewStream(ctx context.Context, _ *grpc.StreamDesc, method string, _ ...grpc.CallOption) (grpc.ClientStream, error) {
	sc := c.sc
	if sc.shut || sc.state != connectivity.Ready {
		sc.cc.e.Logf("sc%d NewStream %s refused (state %v)", sc.id, method, sc.state)
		return nil, status.Error(14, "simcc: subchannel is not READY")
	}
	st := &simOOBStream{sc: sc, ctx: ctx, wake: make(chan struct{}, 1)}
	sc.streams = append(sc.streams, st)
	sc.cc.e.Logf("sc%d NewStream %s", sc.id, method)
	return st, nil
}

type simOOBStream struct {
	sc      *simSC
	ctx     context.Context
	wake    chan struct{}
	pending []*v3orcapb.OrcaLoadReport
	err     error
	ended   bool
	// bookkeeping for the check
	interval time.Duration
	recvs    int // reports handed to the producer
}

func (st *simOOBStream) Header() (metadata.MD, error) { return nil, nil }
func (st *simOOBStream) Trailer() metadata.MD         { return nil }
func (st *simOOBStream) CloseSend() error             { return nil }
func (st *simOOBStream) Context() context.Context     { return st.ctx }
func (st *simOOBStream) SendMsg(m any) error {
	if r, ok := m.(*v3orcaservicepb.OrcaLoadReportRequest); ok {
		st.interval = r.GetReportInterval().AsDuration()
	}
	return nil
}

func (st *simOOBStream) poke() {
	select {
	case st.wake <- struct{}{}:
	default:
	}
}

// push queues a report for the producer (any goroutine).
func (st *simOOBStream) push(r *v3orcapb.OrcaLoadReport) {
	st.pending = append(st.pending, r)
	st.poke()
}

func (st *simOOBStream) end(err error) {
	if st.err == nil {
		st.err = err
	}
	st.poke()
}

func (st *simOOBStream) finish() {
	if st.ended {
		return
	}
	st.ended = true
	for i, x := range st.sc.streams {
		if x == st {
			st.sc.streams = append(st.sc.streams[:i:i], st.sc.streams[i+1:]...)
			break
		}
	}
}

func (st *simOOBStream) RecvMsg(m any) error {
	for {
		if len(st.pending) > 0 {
			r := st.pending[0]
			st.pending = st.pending[1:]
			out := m.(*v3orcapb.OrcaLoadReport)
			out.CpuUtilization, out.ApplicationUtilization, out.RpsFractional, out.Eps = r.CpuUtilization, r.ApplicationUtilization, r.RpsFractional, r.Eps
			st.recvs++
			return nil
		}
		if st.err != nil {
			st.finish()
			return st.err
		}
		select {
		case <-st.wake:
		case <-st.ctx.Done():
			st.finish()
			return status.FromContextError(st.ctx.Err()).Err()
		}
	}
}

// liveStream returns the open ORCA stream of the subchannel, if any.
func (sc *simSC) liveStream() *simOOBStream {
	for _, st := range sc.streams {
		if !st.ended && st.err == nil {
			return st
		}
	}
	return nil
}
