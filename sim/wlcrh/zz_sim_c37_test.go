package ringhash

import (
	"context"
	"fmt"
	"math"
	"sort"
	"strconv"
	"strings"
	"sync"
	"testing/synctest"
	"time"

	xxhash "github.com/cespare/xxhash/v2"
	"google.golang.org/grpc/balancer"
	"google.golang.org/grpc/connectivity"
	"google.golang.org/grpc/experimental/balancer/weight"
	iringhash "google.golang.org/grpc/internal/ringhash"
	"google.golang.org/grpc/internal/zzverif/core"
	"google.golang.org/grpc/metadata"
	"google.golang.org/grpc/resolver"
	rhattr "google.golang.org/grpc/resolver/ringhash"
)

// C37 ring hash.
//
// Simulation part (decides the clauses that involve histories, endpoint state
// assignments, side effects and schedules): the registered ring_hash policy
// (endpointsharding + lazy pick_first children underneath) is built through
// its balancer.Builder on a recording fake ClientConn. A script delivers
// resolver updates (endpoint sets in varying orders and batches, weight
// changes, hash-key changes, address order flips, ring size bounds), scripted
// connection outcomes per endpoint (ok / fail / hang), connection losses,
// backoff ends, and picks: with a request hash (aimed at ring entry hashes and
// their neighbours), with a "random" hash (the picker's random source is the
// harness), sequentially and from bursts of picker goroutines that race with
// state deliveries.
//
//   - ring_history_independent: after every resolver update the ring of the
//     long-lived policy equals the ring of a fresh policy instance that gets
//     only the current endpoint set, in another order.
//   - pick_walk: every pick is judged against the picker it used (ring and
//     endpoint states captured by that picker): request hash -> first entry
//     clockwise with hash >= request hash whose endpoint is not in
//     TRANSIENT_FAILURE; random hash -> first READY endpoint from there.
//   - random_pick_connects / pick_connect_side_effect: a random-hash pick asks
//     at most one endpoint to connect (the first IDLE one before the first
//     READY one, and none if some endpoint is CONNECTING); a request-hash pick
//     that lands on an IDLE endpoint starts a connection attempt on exactly
//     that endpoint (Connect() calls recorded by the fake ClientConn).
//
// Rider (pure, input generation only): ring arithmetic, see c37CheckRing.

type c37EpIn struct {
	Ep     int    `json:"ep"`
	Weight uint32 `json:"w"`
	Flip   bool   `json:"flip,omitempty"` // two-address endpoint listed second address first
	Key    string `json:"key,omitempty"`  // explicit hash key (gRFC A76)
}

type c37Res struct {
	Eps []c37EpIn `json:"eps"`
	Min uint64    `json:"min"`
	Max uint64    `json:"max"`
}

type c37Pick struct {
	Hash   uint64 `json:"hash"`
	Random bool   `json:"random,omitempty"`
}

type c37Act struct {
	Kind string `json:"kind"` // drop | retry | finish
	Ep   int    `json:"ep"`
	Ok   bool   `json:"ok,omitempty"`
}

type c37Ev struct {
	Kind  string    `json:"kind"` // resolver | pick | burst | drop | retry | finish | sleep
	Res   *c37Res   `json:"res,omitempty"`
	Pick  *c37Pick  `json:"pick,omitempty"`
	Ep    int       `json:"ep,omitempty"`
	Ok    bool      `json:"ok,omitempty"`
	Picks []c37Pick `json:"picks,omitempty"` // burst: dealt round robin to G goroutines
	G     int       `json:"g,omitempty"`
	Acts  []c37Act  `json:"acts,omitempty"` // burst: subchannel events the channel delivers while the pickers run
	Ms    int64     `json:"ms,omitempty"`
}

type c37Scenario struct {
	Sched     core.Sched `json:"sched"`
	NEp       int        `json:"n_ep"`
	TwoAddr   []bool     `json:"two_addr"` // endpoint has two addresses
	Header    bool       `json:"header"`   // request_hash_header set (gRFC A76); else the hash comes from the xDS context key
	Outcomes  [][]string `json:"outcomes"` // per endpoint: results of successive connection attempts (ok|fail|hang; the last repeats)
	Evs       []c37Ev    `json:"evs"`
	FreshSeed uint64     `json:"fresh_seed"` // order of the endpoint list given to the fresh instance
}

func (s *c37Scenario) SchedP() *core.Sched { return &s.Sched }
func (s *c37Scenario) Shape() string {
	k := map[string]int{}
	for _, ev := range s.Evs {
		k[ev.Kind]++
	}
	return fmt.Sprintf("ep=%d hdr=%v res=%d pick=%d burst=%d drop=%d retry=%d finish=%d", s.NEp, s.Header, k["resolver"], k["pick"], k["burst"], k["drop"], k["retry"], k["finish"])
}
func (s *c37Scenario) Validate() error {
	if s.NEp < 1 || s.NEp > 16 || len(s.TwoAddr) != s.NEp || len(s.Outcomes) != s.NEp {
		return fmt.Errorf("bad endpoint count")
	}
	for _, o := range s.Outcomes {
		if len(o) == 0 {
			return fmt.Errorf("no outcomes")
		}
		for _, x := range o {
			if x != "ok" && x != "fail" && x != "hang" {
				return fmt.Errorf("bad outcome")
			}
		}
	}
	for i, ev := range s.Evs {
		if ev.Ep < 0 || ev.Ep >= s.NEp || ev.G < 0 || ev.G > 8 || ev.Ms < 0 {
			return fmt.Errorf("bad event %d", i)
		}
		switch ev.Kind {
		case "resolver":
			if ev.Res == nil || ev.Res.Min < 1 || ev.Res.Max < ev.Res.Min || ev.Res.Max > 8192 {
				return fmt.Errorf("bad resolver event %d", i)
			}
			seen, keys := map[int]bool{}, map[string]bool{}
			for _, x := range ev.Res.Eps {
				if x.Ep < 0 || x.Ep >= s.NEp || seen[x.Ep] || x.Weight < 1 {
					return fmt.Errorf("bad endpoint in event %d", i)
				}
				seen[x.Ep] = true
				k := c37Key(s, &x)
				if keys[k] {
					return fmt.Errorf("duplicate hash key in event %d", i)
				}
				keys[k] = true
			}
		case "pick":
			if ev.Pick == nil {
				return fmt.Errorf("bad pick event %d", i)
			}
		case "burst":
			if ev.G < 1 || len(ev.Picks) == 0 {
				return fmt.Errorf("bad burst event %d", i)
			}
			for _, a := range ev.Acts {
				if a.Ep < 0 || a.Ep >= s.NEp || (a.Kind != "drop" && a.Kind != "retry" && a.Kind != "finish") {
					return fmt.Errorf("bad burst act in event %d", i)
				}
			}
		case "drop", "retry", "finish", "sleep":
		default:
			return fmt.Errorf("bad kind %q", ev.Kind)
		}
	}
	return nil
}

func c37Addr(ep, k int) string { return fmt.Sprintf("10.0.%d.%d:80", ep, k+1) }

// c37Key: the hash key of an endpoint as listed (gRFC A61: first address;
// gRFC A76: explicit key).
func c37Key(s *c37Scenario, x *c37EpIn) string {
	if x.Key != "" {
		return x.Key
	}
	if x.Flip && s.TwoAddr[x.Ep] {
		return c37Addr(x.Ep, 1)
	}
	return c37Addr(x.Ep, 0)
}

func c37Endpoint(s *c37Scenario, x *c37EpIn) resolver.Endpoint {
	ep := resolver.Endpoint{Addresses: []resolver.Address{{Addr: c37Addr(x.Ep, 0)}}}
	if s.TwoAddr[x.Ep] {
		ep.Addresses = append(ep.Addresses, resolver.Address{Addr: c37Addr(x.Ep, 1)})
		if x.Flip {
			ep.Addresses[0], ep.Addresses[1] = ep.Addresses[1], ep.Addresses[0]
		}
	}
	ep = weight.Set(ep, weight.EndpointInfo{Weight: x.Weight})
	if x.Key != "" {
		ep = rhattr.SetHashKey(ep, x.Key)
	}
	return ep
}

func c37EntryHash(key string, i int) uint64 { return xxhash.Sum64String(key + "_" + strconv.Itoa(i)) }

func genC37(seed uint64, tier string) *c37Scenario {
	r := core.NewRand(seed)
	s := &c37Scenario{Sched: simGenSched(r, seed), FreshSeed: core.Mix(seed, 31)}
	s.NEp = core.Pick(r, 1, 2, 3, 3, 4, 5, 6, 8)
	s.Header = r.Chance(1, 2)
	for i := 0; i < s.NEp; i++ {
		s.TwoAddr = append(s.TwoAddr, r.Chance(1, 4))
		var o []string
		for k := r.Range(1, 4); k > 0; k-- {
			o = append(o, core.Pick(r, "ok", "ok", "ok", "fail", "fail", "hang"))
		}
		s.Outcomes = append(s.Outcomes, o)
	}
	wstyle := r.Intn(4)
	wgen := func() uint32 {
		switch wstyle {
		case 0:
			return 1
		case 1:
			return uint32(r.Range(1, 5))
		case 2:
			return uint32(core.Pick(r, 1, 1, 2, 3, 10, 100, 1000, 1000000))
		default:
			return uint32(r.Range(1, 100))
		}
	}
	cur := map[int]*c37EpIn{}
	var curKeys []string
	mkRes := func() *c37Res {
		// evolve the current set: add, remove, reweigh, flip, rekey
		if len(cur) == 0 || r.Chance(1, 5) {
			for i := 0; i < s.NEp; i++ {
				if r.Chance(3, 4) {
					if cur[i] == nil {
						cur[i] = &c37EpIn{Ep: i, Weight: wgen()}
					}
				} else {
					delete(cur, i)
				}
			}
		} else {
			for k := r.Range(1, 3); k > 0; k-- {
				i := r.Intn(s.NEp)
				switch r.Intn(6) {
				case 0:
					delete(cur, i)
				case 1, 2:
					if cur[i] == nil {
						cur[i] = &c37EpIn{Ep: i, Weight: wgen()}
					} else {
						cur[i].Weight = wgen()
					}
				case 3:
					if cur[i] != nil {
						cur[i].Flip = !cur[i].Flip
					}
				case 4:
					if cur[i] != nil {
						if cur[i].Key == "" {
							cur[i].Key = fmt.Sprintf("key-%d-%d", i, r.Intn(3))
						} else {
							cur[i].Key = ""
						}
					}
				default:
					if cur[i] == nil {
						cur[i] = &c37EpIn{Ep: i, Weight: wgen()}
					}
				}
			}
		}
		if len(cur) == 0 && r.Chance(9, 10) {
			i := r.Intn(s.NEp)
			cur[i] = &c37EpIn{Ep: i, Weight: wgen()}
		}
		res := &c37Res{}
		var ids []int
		for i := range cur {
			ids = append(ids, i)
		}
		sort.Ints(ids)
		for i := len(ids) - 1; i > 0; i-- {
			j := r.Intn(i + 1)
			ids[i], ids[j] = ids[j], ids[i]
		}
		curKeys = curKeys[:0]
		for _, i := range ids {
			res.Eps = append(res.Eps, *cur[i])
			curKeys = append(curKeys, c37Key(s, cur[i]))
		}
		res.Min = uint64(core.Pick(r, 1, 2, 3, 5, 8, 16, 31, 64))
		res.Max = res.Min * uint64(core.Pick(r, 1, 1, 2, 4, 16))
		if r.Chance(1, 6) {
			res.Max = res.Min + uint64(r.Intn(4))
		}
		if tier == "thorough" && r.Chance(1, 10) {
			res.Min, res.Max = uint64(core.Pick(r, 256, 1024)), 4096
		}
		return res
	}
	hash := func() c37Pick {
		p := c37Pick{Random: s.Header && r.Chance(1, 2)}
		switch {
		case len(curKeys) > 0 && r.Chance(3, 5):
			// on or next to a (possible) ring entry
			p.Hash = c37EntryHash(curKeys[r.Intn(len(curKeys))], r.Intn(6)) + uint64(r.Intn(3)) - 1
		case r.Chance(1, 4):
			p.Hash = core.Pick(r, uint64(0), 1, math.MaxUint64, math.MaxUint64-1, 1<<63)
		default:
			p.Hash = r.Uint64()
		}
		return p
	}
	s.Evs = append(s.Evs, c37Ev{Kind: "resolver", Res: mkRes()})
	n := r.Range(8, 30)
	if tier == "thorough" {
		n = r.Range(15, 70)
	}
	for i := 0; i < n; i++ {
		ev := c37Ev{Ep: r.Intn(s.NEp)}
		switch d := r.Intn(40); {
		case d < 5:
			ev.Kind, ev.Res = "resolver", mkRes()
		case d < 22:
			h := hash()
			ev.Kind, ev.Pick = "pick", &h
		case d < 26:
			ev.Kind, ev.G = "burst", r.Range(1, 4)
			for k := r.Intn(4); k > 0; k-- {
				ev.Acts = append(ev.Acts, c37Act{Kind: core.Pick(r, "drop", "retry", "finish"), Ep: r.Intn(s.NEp), Ok: r.Chance(1, 2)})
			}
			for k := r.Range(2, 10); k > 0; k-- {
				ev.Picks = append(ev.Picks, hash())
			}
		case d < 30:
			ev.Kind = "drop"
		case d < 34:
			ev.Kind = "retry"
		case d < 38:
			ev.Kind, ev.Ok = "finish", r.Chance(1, 2)
		default:
			ev.Kind, ev.Ms = "sleep", core.Pick(r, int64(1), 100, 250, 1000)
		}
		s.Evs = append(s.Evs, ev)
	}
	return s
}

// ---- checks ----

type c37PickerInfo struct {
	p     *picker
	seq   int
	trig  map[string]int // exitIdle calls per hash key, by the pick in progress
	fresh bool           // no state delivery since it was published
}

type c37Trig struct {
	pick int
	key  string
}

type c37World struct {
	e   *core.Env
	s   *c37Scenario
	cc  *simCC
	b   balancer.Balancer
	cur *c37Res
	pk  *c37PickerInfo
	// per-endpoint count of connection attempts (Connect() calls)
	connects map[int]int
	attempt  []int // next outcome index per endpoint
	randHash uint64
	trigLog  []c37Trig // exitIdle calls made through instrumented pickers
	curPick  int
	nPicks   int
	npub     int
}

func c37EpOfAddr(addr string) int {
	var ep, k int
	fmt.Sscanf(addr, "10.0.%d.%d:80", &ep, &k)
	return ep
}

func (w *c37World) keysOfCur() map[string]*c37EpIn {
	m := map[string]*c37EpIn{}
	if w.cur != nil {
		for i := range w.cur.Eps {
			m[c37Key(w.s, &w.cur.Eps[i])] = &w.cur.Eps[i]
		}
	}
	return m
}

// onState instruments every published ring-hash picker: the random source and
// the "exit idle" functions of its private endpoint-state copy are the
// harness's, so that random hashes are scripted and connection requests made
// by a pick are counted.
func (w *c37World) onState(st balancer.State) {
	p, ok := st.Picker.(*picker)
	if !ok {
		w.pk = nil
		return
	}
	w.npub++
	info := &c37PickerInfo{p: p, seq: w.npub, fresh: true}
	p.randUint64 = func() uint64 { return w.randHash }
	keys := make([]string, 0, len(p.endpointStates))
	for k := range p.endpointStates {
		keys = append(keys, k)
	}
	sort.Strings(keys)
	for _, k := range keys {
		es := p.endpointStates[k]
		orig := es.exitIdle
		es.exitIdle = func() {
			w.trigLog = append(w.trigLog, c37Trig{w.curPick, k})
			if orig != nil {
				orig()
			}
		}
		p.endpointStates[k] = es
	}
	w.pk = info
}

func c37RingString(r *ring) string {
	var sb strings.Builder
	for i, it := range r.items {
		if i >= 24 {
			fmt.Fprintf(&sb, " ...(%d)", len(r.items))
			break
		}
		fmt.Fprintf(&sb, " %s@%x", it.hashKey, it.hash)
	}
	return sb.String()
}

// c37CheckRing is the pure rider: structure, bounds and proportions of a ring
// for the current endpoint set.
func (w *c37World) checkRing(what string, r *ring) {
	e := w.e
	set := w.keysOfCur()
	n := len(r.items)
	if uint64(n) < w.cur.Min || uint64(n) > w.cur.Max {
		e.Violate("rider_ring_size", "%s: ring of %d entries for bounds [%d,%d] (%d endpoints)", what, n, w.cur.Min, w.cur.Max, len(set))
	}
	counts := map[string]int{}
	hashes := map[string][]uint64{}
	var total float64
	for _, x := range set {
		total += float64(x.Weight)
	}
	for i, it := range r.items {
		if it.idx != i || (i > 0 && r.items[i-1].hash > it.hash) {
			e.Violate("rider_ring_entries", "%s: entry %d out of order (idx %d)", what, i, it.idx)
			return
		}
		x := set[it.hashKey]
		if x == nil {
			e.Violate("rider_ring_entries", "%s: ring entry for %q which is not in the endpoint set", what, it.hashKey)
			return
		}
		if it.weight != x.Weight {
			e.Violate("rider_ring_entries", "%s: ring entry of %q carries weight %d, endpoint has %d", what, it.hashKey, it.weight, x.Weight)
		}
		counts[it.hashKey]++
		hashes[it.hashKey] = append(hashes[it.hashKey], it.hash)
	}
	keys := make([]string, 0, len(set))
	for k := range set {
		keys = append(keys, k)
	}
	sort.Strings(keys)
	for _, k := range keys {
		c := counts[k]
		ideal := float64(n) * float64(set[k].Weight) / total
		if math.Abs(float64(c)-ideal) >= 2 {
			e.Violate("rider_ring_proportional", "%s: endpoint %q (weight %d of %v) has %d of %d entries, proportional share is %.3f", what, k, set[k].Weight, total, c, n, ideal)
		}
		want := make([]uint64, c)
		for i := range want {
			want[i] = c37EntryHash(k, i)
		}
		got := append([]uint64(nil), hashes[k]...)
		sort.Slice(want, func(i, j int) bool { return want[i] < want[j] })
		sort.Slice(got, func(i, j int) bool { return got[i] < got[j] })
		for i := range want {
			if want[i] != got[i] {
				e.Violate("rider_ring_entries", "%s: the %d entries of %q are not the hashes of %q_0..%q_%d", what, c, k, k, k, c-1)
				break
			}
		}
		if c > 1 {
			e.Probe("endpoint_with_several_entries")
		}
		if c == 0 {
			e.Probe("endpoint_without_entry")
		}
	}
}

// freshRing builds a new policy instance, gives it only the current set (in
// another order) and returns its ring.
func (w *c37World) freshRing() *ring {
	cc := newSimCC(w.e)
	b := bb{}.Build(cc, balancer.BuildOptions{})
	r := core.NewRand(w.s.FreshSeed ^ uint64(w.npub))
	eps := append([]c37EpIn(nil), w.cur.Eps...)
	for i := len(eps) - 1; i > 0; i-- {
		j := r.Intn(i + 1)
		eps[i], eps[j] = eps[j], eps[i]
	}
	var rs resolver.State
	for i := range eps {
		rs.Endpoints = append(rs.Endpoints, c37Endpoint(w.s, &eps[i]))
	}
	b.UpdateClientConnState(balancer.ClientConnState{ResolverState: rs, BalancerConfig: w.lbCfg()})
	var out *ring
	if p, ok := cc.last.Picker.(*picker); ok {
		out = p.ring
	}
	b.Close()
	cc.settle()
	return out
}

func (w *c37World) lbCfg() *iringhash.LBConfig {
	c := &iringhash.LBConfig{MinRingSize: w.cur.Min, MaxRingSize: w.cur.Max}
	if w.s.Header {
		c.RequestHashHeader = "x-hash"
	}
	return c
}

type c37Want struct {
	kind string // ready | idle | connecting | alltf | queue
	key  string // endpoint the pick is delegated to
	trig string // random hash: endpoint asked to connect ("" none)
}

// refWalk is the statement applied to the ring and endpoint states held by
// picker p.
func c37RefWalk(p *picker, h uint64, random bool) c37Want {
	items := p.ring.items
	n := len(items)
	start := sort.Search(n, func(i int) bool { return items[i].hash >= h })
	if start == n {
		start = 0
	}
	state := func(i int) connectivity.State {
		return p.endpointStates[items[(start+i)%n].hashKey].state.ConnectivityState
	}
	if !random {
		for i := 0; i < n; i++ {
			switch state(i) {
			case connectivity.Ready:
				return c37Want{kind: "ready", key: items[(start+i)%n].hashKey}
			case connectivity.Idle:
				return c37Want{kind: "idle", key: items[(start+i)%n].hashKey}
			case connectivity.Connecting:
				return c37Want{kind: "connecting", key: items[(start+i)%n].hashKey}
			}
		}
		return c37Want{kind: "alltf", key: items[start].hashKey}
	}
	connecting := false
	for _, es := range p.endpointStates {
		if es.state.ConnectivityState == connectivity.Connecting {
			connecting = true
		}
	}
	want := c37Want{}
	for i := 0; i < n; i++ {
		st := state(i)
		if st == connectivity.Ready {
			want.kind, want.key = "ready", items[(start+i)%n].hashKey
			return want
		}
		if st == connectivity.Idle && !connecting && want.trig == "" {
			want.trig = items[(start+i)%n].hashKey
		}
	}
	if connecting || want.trig != "" {
		want.kind = "queue"
	} else {
		want.kind, want.key = "alltf", items[start].hashKey
	}
	return want
}

// pick performs one pick on the published picker and judges it. exact: no
// state delivery can interleave (sequential pick at a quiescent point).
func (w *c37World) pick(who string, pk c37Pick, exact bool) {
	e := w.e
	st := w.cc.last
	info := w.pk
	if st.Picker == nil {
		return
	}
	ctx := context.Background()
	random := false
	h := pk.Hash
	if w.s.Header {
		if pk.Random {
			random = true
		} else {
			v := fmt.Sprintf("v%d", pk.Hash)
			ctx = metadata.NewOutgoingContext(ctx, metadata.Pairs("x-hash", v))
			h = xxhash.Sum64String(v)
		}
	} else {
		ctx = iringhash.SetXDSRequestHash(ctx, pk.Hash)
	}
	var before map[int]int
	if exact {
		before = map[int]int{}
		for k, v := range w.connects {
			before[k] = v
		}
	}
	// no scheduling point between these assignments and the reads in Pick
	// (a random-hash pick has no scheduling point at all; a request-hash pick
	// never reaches the instrumented exit-idle functions)
	w.nPicks++
	me := w.nPicks
	w.randHash, w.curPick = pk.Hash, me
	res, err := st.Picker.Pick(balancer.PickInfo{Ctx: ctx, FullMethodName: "/s/m"})
	var trig []string
	rest := w.trigLog[:0]
	for _, t := range w.trigLog {
		if t.pick == me {
			trig = append(trig, t.key)
		} else {
			rest = append(rest, t)
		}
	}
	w.trigLog = rest
	if info == nil || info.p != st.Picker {
		// not a ring-hash picker (no endpoints)
		if err == nil {
			e.Violate("pick_walk", "%s: pick succeeded although the policy has no ring", who)
		}
		return
	}
	want := c37RefWalk(info.p, h, random)
	e.Logf("%s pick hash=%x random=%v on picker #%d -> want %s %s trig=%q, got sc=%v err=%v trig=%v", who, h, random, info.seq, want.kind, want.key, want.trig, res.SubConn, err, trig)
	e.Probe("pick_" + want.kind)
	if random {
		e.Probe("pick_random")
	}
	keys := w.keysOfPicker(info.p)
	switch want.kind {
	case "ready":
		sc, _ := res.SubConn.(*simSC)
		if err != nil || sc == nil {
			e.Violate("pick_walk", "%s: hash %x (random=%v): the walk ends at READY endpoint %q but the pick returned err=%v", who, h, random, want.key, err)
		} else if got := keys[sc.addr]; got != want.key {
			e.Violate("pick_walk", "%s: hash %x (random=%v): the walk ends at READY endpoint %q but the pick returned %v of endpoint %q (ring:%s)", who, h, random, want.key, sc, got, c37RingString(info.p.ring))
		}
	case "idle", "connecting", "queue":
		if err != balancer.ErrNoSubConnAvailable {
			e.Violate("pick_walk", "%s: hash %x (random=%v): the walk ends at %s endpoint %q: the pick must be queued, got sc=%v err=%v", who, h, random, want.kind, want.key, res.SubConn, err)
		}
	case "alltf":
		if err == nil || err == balancer.ErrNoSubConnAvailable {
			e.Violate("pick_walk", "%s: hash %x (random=%v): every endpoint is in TRANSIENT_FAILURE: the pick must fail, got sc=%v err=%v", who, h, random, res.SubConn, err)
		}
	}
	if random {
		if len(trig) > 1 {
			e.Violate("random_pick_connects", "%s: a random-hash pick asked %d endpoints to connect: %v", who, len(trig), trig)
		}
		got := ""
		if len(trig) > 0 {
			got = trig[0]
			e.Probe("random_pick_triggered_connect")
		}
		if got != want.trig {
			e.Violate("random_pick_connects", "%s: random hash %x: the pick asked %q to connect, the first IDLE endpoint before the first READY one (none if an endpoint is CONNECTING) is %q", who, h, got, want.trig)
		}
	} else if len(trig) > 0 {
		e.Violate("random_pick_connects", "%s: a request-hash pick used the random-hash connect path for %v", who, trig)
	}
	if !exact || !info.fresh {
		return
	}
	// connection attempts the pick started, before any state delivery
	synctest.Wait()
	var started []string
	for ep := 0; ep < w.s.NEp; ep++ {
		for k := before[ep]; k < w.connects[ep]; k++ {
			started = append(started, fmt.Sprint(ep))
		}
	}
	wantEp := ""
	switch {
	case random && want.trig != "":
		wantEp = want.trig
	case !random && want.kind == "idle":
		wantEp = want.key
	}
	wantStarted := []string{}
	if wantEp != "" {
		for i := range w.cur.Eps {
			if c37Key(w.s, &w.cur.Eps[i]) == wantEp {
				wantStarted = append(wantStarted, fmt.Sprint(w.cur.Eps[i].Ep))
			}
		}
		if len(wantStarted) == 0 {
			return // the picker is older than the current resolver update
		}
		e.Probe("pick_started_connection")
	}
	if strings.Join(started, ",") != strings.Join(wantStarted, ",") {
		e.Violate("pick_connect_side_effect", "%s: hash %x (random=%v, walk: %s %q trig %q): connection attempts started on endpoints %v, expected %v", who, h, random, want.kind, want.key, want.trig, started, wantStarted)
	}
}

// keysOfPicker maps addresses to the hash key under which the picker knows the endpoint.
func (w *c37World) keysOfPicker(p *picker) map[string]string {
	m := map[string]string{}
	for i := range w.cur.Eps {
		x := &w.cur.Eps[i]
		k := c37Key(w.s, x)
		m[c37Addr(x.Ep, 0)] = k
		m[c37Addr(x.Ep, 1)] = k
	}
	return m
}

// act delivers one scripted subchannel event (root goroutine); it returns the
// number of deliveries made.
func (w *c37World) act(a c37Act) int {
	e, n := w.e, 0
	for _, sc := range w.cc.subs {
		if sc.shut || c37EpOfAddr(sc.addr) != a.Ep {
			continue
		}
		switch {
		case a.Kind == "drop" && sc.state == connectivity.Ready:
			e.Probe("connection_lost")
			e.Fault("connection_lost")
			sc.deliver(connectivity.Idle, nil)
			n++
		case a.Kind == "retry" && sc.state == connectivity.TransientFailure:
			e.Probe("backoff_over")
			sc.deliver(connectivity.Idle, nil)
			n++
		case a.Kind == "finish" && sc.state == connectivity.Connecting:
			e.Probe("hanging_connect_finished")
			if a.Ok {
				sc.deliver(connectivity.Ready, nil)
			} else {
				e.Fault("connect_failed")
				sc.deliver(connectivity.TransientFailure, fmt.Errorf("simcc: connection refused"))
			}
			n++
		}
	}
	return n
}

func runC37(e *core.Env, s *c37Scenario) {
	w := &c37World{e: e, s: s, connects: map[int]int{}, attempt: make([]int, s.NEp)}
	w.cc = newSimCC(e)
	w.cc.onState = w.onState
	w.cc.onConnect = func(sc *simSC) {
		w.connects[c37EpOfAddr(sc.addr)]++
		e.Probe("connect")
	}
	w.cc.onDeliver = func(sc *simSC, st connectivity.State) {
		if w.pk != nil {
			w.pk.fresh = false
		}
	}
	w.cc.connectOutcome = func(sc *simSC) connectivity.State {
		ep := c37EpOfAddr(sc.addr)
		o := s.Outcomes[ep]
		k := w.attempt[ep]
		if k >= len(o) {
			k = len(o) - 1
		}
		w.attempt[ep]++
		switch o[k] {
		case "ok":
			return connectivity.Ready
		case "hang":
			return connectivity.Connecting
		}
		return connectivity.TransientFailure
	}
	w.b = bb{}.Build(w.cc, balancer.BuildOptions{})

	for i := range s.Evs {
		ev := &s.Evs[i]
		e.Logf("ev %d %s ep%d", i, ev.Kind, ev.Ep)
		switch ev.Kind {
		case "resolver":
			w.cur = ev.Res
			var rs resolver.State
			for k := range ev.Res.Eps {
				rs.Endpoints = append(rs.Endpoints, c37Endpoint(s, &ev.Res.Eps[k]))
			}
			if err := w.b.UpdateClientConnState(balancer.ClientConnState{ResolverState: rs, BalancerConfig: w.lbCfg()}); err != nil {
				e.Logf("UpdateClientConnState: %v", err)
			}
			w.cc.settle()
			if len(ev.Res.Eps) == 0 {
				e.Probe("empty_endpoint_list")
				if w.pk != nil {
					e.Violate("ring_history_independent", "ev %d: a ring-hash picker is published for an empty endpoint list", i)
				}
				break
			}
			if w.pk == nil {
				e.Violate("ring_history_independent", "ev %d: no ring-hash picker published for %d endpoints", i, len(ev.Res.Eps))
				break
			}
			what := fmt.Sprintf("ev %d (update %v)", i, ev.Res.Eps)
			w.checkRing(what, w.pk.p.ring)
			fr := w.freshRing()
			if fr == nil {
				e.Violate("harness", "fresh instance published no ring")
				break
			}
			same := len(fr.items) == len(w.pk.p.ring.items)
			for k := 0; same && k < len(fr.items); k++ {
				a, b := fr.items[k], w.pk.p.ring.items[k]
				same = a.hash == b.hash && a.hashKey == b.hashKey && a.weight == b.weight
			}
			if !same {
				e.Violate("ring_history_independent", "%s: the ring of the long-lived policy differs from the ring a fresh policy builds for the same endpoint set and bounds [%d,%d]: have%s; fresh%s", what, ev.Res.Min, ev.Res.Max, c37RingString(w.pk.p.ring), c37RingString(fr))
			}
			// sweep: owners of every possible entry hash and its neighbours
			for _, x := range ev.Res.Eps {
				k := c37Key(s, &x)
				for j := 0; j < 4; j++ {
					for d := uint64(0); d < 3; d++ {
						h := c37EntryHash(k, j) + d - 1
						if w.pk.p.ring.pick(h).hashKey != fr.pick(h).hashKey {
							e.Violate("ring_history_independent", "%s: hash %x belongs to %q in the long-lived policy and to %q in a fresh one", what, h, w.pk.p.ring.pick(h).hashKey, fr.pick(h).hashKey)
						}
					}
				}
			}
			e.Probe("ring_compared_with_fresh_instance")
		case "pick":
			w.pick(fmt.Sprintf("ev%d", i), *ev.Pick, true)
			w.cc.settle()
		case "burst":
			e.Probe("burst")
			var wg sync.WaitGroup
			for g := 0; g < ev.G; g++ {
				wg.Add(1)
				go func() {
					defer wg.Done()
					for k := g; k < len(ev.Picks); k += ev.G {
						w.pick(fmt.Sprintf("ev%d.g%d.%d", i, g, k), ev.Picks[k], false)
					}
				}()
			}
			// the channel delivers subchannel state changes meanwhile (no
			// quiescence in between: the deliveries interleave with the picks)
			for _, a := range ev.Acts {
				n := w.act(a)
				for len(w.cc.queue) > 0 {
					f := w.cc.queue[0]
					w.cc.queue = w.cc.queue[1:]
					f()
					n++
				}
				e.ProbeN("delivery_during_burst", n)
			}
			wg.Wait()
			w.cc.settle()
		case "drop", "retry", "finish":
			w.act(c37Act{Kind: ev.Kind, Ep: ev.Ep, Ok: ev.Ok})
			w.cc.settle()
		case "sleep":
			time.Sleep(time.Duration(ev.Ms) * time.Millisecond)
			w.cc.settle()
		}
	}
	w.b.Close()
	w.cc.settle()
	time.Sleep(time.Second)
	w.cc.settle()
}

func init() { core.Register("C37", genC37, runC37) }
