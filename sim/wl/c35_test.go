package wl

// C35: aggregated connectivity state follows the precedence rule; the
// endpoint-sharding picker (round_robin) delegates only to children in the
// aggregate state, and evenly.
//
// Three sub-worlds, chosen per scenario:
//
//	es   real balancer/endpointsharding over scripted stub children that
//	     report states inline and from their own goroutines while the channel
//	     goroutine sends resolver updates / errors / ExitIdle and picker-user
//	     goroutines pick concurrently;
//	rr   the registered round_robin policy (endpointsharding + real pick_first
//	     children with health listeners) over the simulated subchannels of
//	     chanenv_test.go;
//	wagg balancer/weightedtarget/weightedaggregator driven directly (Add /
//	     Remove / UpdateState from several goroutines, pause/resume).
//
// Every scenario also carries a short transition list that is run against
// balancer.ConnectivityStateEvaluator (rider: pure, sequential).

import (
	"errors"
	"fmt"
	"sort"
	"strings"
	"sync"
	"testing/synctest"
	"time"

	"google.golang.org/grpc/balancer"
	"google.golang.org/grpc/balancer/endpointsharding"
	"google.golang.org/grpc/balancer/roundrobin"
	"google.golang.org/grpc/connectivity"
	"google.golang.org/grpc/internal/zzverif/core"
	"google.golang.org/grpc/resolver"
)

type c35Op struct {
	K  string `json:"k"`            // ccs | reserr | exitidle | picks | sleep | quiesce
	EP []int  `json:"ep,omitempty"` // ccs: endpoint ids (es) / indices into RREndpoints (rr); duplicates allowed; empty = no endpoints
	G  int    `json:"g,omitempty"`  // picks: goroutines
	P  int    `json:"p,omitempty"`  // picks: picks per goroutine
	N  int64  `json:"n,omitempty"`  // sleep ns
}

type c35Scenario struct {
	Sched core.Sched `json:"sched"`
	Mode  string     `json:"mode"` // es | rr | wagg
	Ops   []c35Op    `json:"ops"`
	// es
	NoAutoReconnect bool          `json:"no_auto_reconnect,omitempty"`
	Children        []childScript `json:"children,omitempty"`
	// rr
	Addrs       []addrPlan `json:"addrs,omitempty"`
	RREndpoints [][]int    `json:"rr_endpoints,omitempty"` // endpoint -> indices into Addrs
	// wagg
	WOps [][]c35WOp `json:"wops,omitempty"` // one list per goroutine; list 0 is the owner (Add/Remove/Pause/Resume...)
	// rider
	CSE []c35Tr `json:"cse,omitempty"`
}

type c35Tr struct {
	C int `json:"c"` // child
	S int `json:"s"` // new state 0..3, 4 = removed (SHUTDOWN)
}

type c35WOp struct {
	K  string `json:"k"`            // add | remove | state | pause | resume | stop | start | build | sleep
	ID int    `json:"id,omitempty"` // child id
	S  int    `json:"s,omitempty"`
	N  int64  `json:"n,omitempty"`
}

func (s *c35Scenario) SchedP() *core.Sched { return &s.Sched }
func (s *c35Scenario) Shape() string {
	pk, cc := 0, 0
	for _, o := range s.Ops {
		switch o.K {
		case "picks":
			pk++
		case "ccs":
			cc++
		}
	}
	w := 0
	for _, l := range s.WOps {
		w += len(l)
	}
	return fmt.Sprintf("%s ops=%d ccs=%d picks=%d children=%d addrs=%d wops=%d", s.Mode, len(s.Ops), cc, pk, len(s.Children), len(s.Addrs), w/4)
}

const c35MaxEP = 8

func (s *c35Scenario) Validate() error {
	switch s.Mode {
	case "es", "rr", "wagg":
	default:
		return errors.New("bad mode")
	}
	for _, o := range s.Ops {
		if o.G < 0 || o.G > 8 || o.P < 0 || o.P > 64 || o.N < 0 {
			return errors.New("bad op")
		}
		for _, e := range o.EP {
			if e < 0 || (s.Mode == "es" && e >= c35MaxEP) || (s.Mode == "rr" && e >= len(s.RREndpoints)) {
				return errors.New("bad endpoint")
			}
		}
	}
	for _, c := range s.Children {
		// a child policy reports a state during its first update (as every real
		// policy does); a silent child has no defined state to aggregate
		if len(c.OnCCS) == 0 || c.OnCCS[0].K != "state" {
			return errors.New("child must report a state in UpdateClientConnState")
		}
		if len(c.OnBuild) != 0 {
			return errors.New("children do not report from inside Build")
		}
		for _, as := range [][]childAct{c.OnBuild, c.OnCCS, c.OnErr, c.OnExit, c.OnClose, c.Own} {
			for _, a := range as {
				if a.S < 0 || a.S > 3 || a.N < 0 || (a.K != "state" && a.K != "sleep") {
					return errors.New("bad act")
				}
			}
		}
	}
	for _, ep := range s.RREndpoints {
		if len(ep) == 0 {
			return errors.New("empty endpoint")
		}
		for _, i := range ep {
			if i < 0 || i >= len(s.Addrs) {
				return errors.New("bad address index")
			}
		}
	}
	for _, a := range s.Addrs {
		for _, o := range a.Outcomes {
			if o.D < 0 || o.Life < 0 || o.Backoff < 0 {
				return errors.New("negative time")
			}
			for _, h := range o.Health {
				if h.S < 1 || h.S > 3 || h.D < 0 {
					return errors.New("bad health step")
				}
			}
		}
	}
	for _, l := range s.WOps {
		for _, o := range l {
			if o.ID < 0 || o.ID >= c35MaxEP || o.S < 0 || o.S > 3 || o.N < 0 {
				return errors.New("bad wop")
			}
		}
	}
	for _, t := range s.CSE {
		if t.C < 0 || t.C >= 16 || t.S < 0 || t.S > 4 {
			return errors.New("bad transition")
		}
	}
	return nil
}

func genC35(seed uint64, tier string) *c35Scenario {
	r := core.NewRand(seed)
	s := &c35Scenario{Sched: genSched(r, seed)}
	big := tier == "thorough"
	for n := r.Range(4, 24); n > 0; n-- {
		s.CSE = append(s.CSE, c35Tr{C: r.Intn(core.Pick(r, 1, 2, 4, 8)), S: r.Intn(5)})
	}
	gaps := []int64{0, 1, 1, 2, 3, 5, 10}
	switch x := r.Intn(10); {
	case x < 5:
		s.Mode = "es"
		s.NoAutoReconnect = r.Chance(1, 3)
		nEP := r.Range(1, c35MaxEP)
		maxOps := 10
		if big {
			maxOps = 24
		}
		builds := 0
		for n := r.Range(2, maxOps); n > 0; n-- {
			switch y := r.Intn(20); {
			case y < 6 || len(s.Ops) == 0:
				op := c35Op{K: "ccs"}
				if !r.Chance(1, 12) {
					for k := r.Range(1, nEP+1); k > 0; k-- {
						op.EP = append(op.EP, r.Intn(nEP))
					}
				}
				builds += len(op.EP)
				s.Ops = append(s.Ops, op)
			case y < 7:
				s.Ops = append(s.Ops, c35Op{K: "reserr"})
			case y < 8:
				s.Ops = append(s.Ops, c35Op{K: "exitidle"})
			case y < 14:
				s.Ops = append(s.Ops, c35Op{K: "picks", G: core.Pick(r, 1, 1, 2, 3, 4), P: r.Range(1, 12)})
			case y < 18:
				s.Ops = append(s.Ops, c35Op{K: "sleep", N: core.Pick(r, gaps...) + 1})
			default:
				s.Ops = append(s.Ops, c35Op{K: "quiesce"})
			}
		}
		if builds > 24 {
			builds = 24
		}
		// bias the states so that ties between several children in the aggregate state are common
		bias := r.Intn(5)
		st := func() int {
			if bias < 4 && r.Chance(1, 2) {
				return bias
			}
			return r.Intn(4)
		}
		for i := 0; i < builds; i++ {
			cs := childScript{OnCCS: []childAct{{K: "state", S: st()}}}
			if r.Chance(1, 4) {
				cs.OnCCS = append(cs.OnCCS, childAct{K: "state", S: st()})
			}
			// No reports from inside Build: endpointsharding assigns the child
			// after Build returns, and its auto-reconnect goroutine (started by an
			// IDLE report) would call ExitIdle on a nil child - a robustness gap
			// outside this property (see the report).
			if r.Chance(1, 2) {
				cs.OnExit = []childAct{{K: "state", S: core.Pick(r, 1, 1, 2, 3)}}
			}
			if r.Chance(1, 3) {
				cs.OnErr = []childAct{{K: "state", S: core.Pick(r, 3, 3, 1)}}
			}
			if r.Chance(1, 6) {
				cs.OnClose = []childAct{{K: "state", S: r.Intn(4)}}
			}
			if r.Chance(3, 4) {
				for k := r.Range(1, 6); k > 0; k-- {
					if r.Chance(1, 3) {
						cs.Own = append(cs.Own, childAct{K: "sleep", N: core.Pick(r, gaps...)})
					} else {
						cs.Own = append(cs.Own, childAct{K: "state", S: st()})
					}
				}
			}
			s.Children = append(s.Children, cs)
		}
	case x < 8:
		s.Mode = "rr"
		na := r.Range(1, 6)
		for i := 0; i < na; i++ {
			p := addrPlan{Addr: c34AddrString(r.Intn(2), i)}
			failBias := r.Intn(3)
			for k := r.Range(1, 3); k > 0; k-- {
				o := connOutcome{D: core.Pick(r, int64(0), 1, 1000, 1e6, c34Delay, 1e9)}
				switch y := r.Intn(20); {
				case y < 3+4*failBias:
					o.K = "fail"
					o.Backoff = core.Pick(r, int64(1e6), c34Delay, 1e9, 2e9)
				case y < 18:
					o.K = "ready"
					if r.Chance(2, 5) {
						o.Life = core.Pick(r, int64(1e6), c34Delay, 1e9, 3e9)
					}
					if r.Chance(1, 3) {
						for n := r.Range(1, 3); n > 0; n-- {
							o.Health = append(o.Health, healthStep{S: core.Pick(r, 2, 2, 1, 3), D: core.Pick(r, int64(0), 1, 1e6, c34Delay)})
						}
					}
				case y < 19:
					o.K = "hang"
				default:
					o.K = "idle"
				}
				p.Outcomes = append(p.Outcomes, o)
			}
			s.Addrs = append(s.Addrs, p)
		}
		nEP := r.Range(1, 5)
		for i := 0; i < nEP; i++ {
			ep := []int{r.Intn(na)}
			if r.Chance(1, 4) {
				ep = append(ep, r.Intn(na))
			}
			s.RREndpoints = append(s.RREndpoints, ep)
		}
		maxOps := 8
		if big {
			maxOps = 16
		}
		for n := r.Range(2, maxOps); n > 0; n-- {
			switch y := r.Intn(20); {
			case y < 5 || len(s.Ops) == 0:
				op := c35Op{K: "ccs"}
				if !r.Chance(1, 12) {
					for k := r.Range(1, nEP); k > 0; k-- {
						op.EP = append(op.EP, r.Intn(nEP))
					}
				}
				s.Ops = append(s.Ops, op)
			case y < 6:
				s.Ops = append(s.Ops, c35Op{K: "reserr"})
			case y < 7:
				s.Ops = append(s.Ops, c35Op{K: "exitidle"})
			case y < 14:
				s.Ops = append(s.Ops, c35Op{K: "picks", G: core.Pick(r, 1, 1, 2, 3), P: r.Range(1, 12)})
			default:
				s.Ops = append(s.Ops, c35Op{K: "sleep", N: core.Pick(r, int64(1), 1e6, c34Delay, c34Delay+1, 1e9, 3e9)})
			}
		}
	default:
		s.Mode = "wagg"
		ng := r.Range(2, 4)
		nid := r.Range(1, 5)
		for g := 0; g < ng; g++ {
			var l []c35WOp
			for n := r.Range(2, 10); n > 0; n-- {
				if g == 0 {
					switch y := r.Intn(20); {
					case y < 7 || len(l) == 0:
						l = append(l, c35WOp{K: "add", ID: r.Intn(nid)})
					case y < 10:
						l = append(l, c35WOp{K: "remove", ID: r.Intn(nid)})
					case y < 12:
						l = append(l, c35WOp{K: "pause"})
					case y < 14:
						l = append(l, c35WOp{K: "resume"})
					case y < 15:
						l = append(l, c35WOp{K: "build"})
					case y < 16:
						l = append(l, c35WOp{K: "stop"}, c35WOp{K: "start"})
					default:
						l = append(l, c35WOp{K: "sleep", N: core.Pick(r, gaps...) + 1})
					}
				} else {
					if r.Chance(1, 4) {
						l = append(l, c35WOp{K: "sleep", N: core.Pick(r, gaps...)})
					} else {
						l = append(l, c35WOp{K: "state", ID: r.Intn(nid), S: r.Intn(4)})
					}
				}
			}
			s.WOps = append(s.WOps, l)
		}
	}
	return s
}

// ---- rider: balancer.ConnectivityStateEvaluator ----

func c35RiderCSE(e *core.Env, trs []c35Tr) {
	var cse balancer.ConnectivityStateEvaluator
	cur := map[int]connectivity.State{}
	for i, t := range trs {
		old, had := cur[t.C]
		if !had {
			old = connectivity.Shutdown
		}
		nw := connectivity.State(t.S)
		if t.S == 4 {
			nw = connectivity.Shutdown
			delete(cur, t.C)
		} else {
			cur[t.C] = nw
		}
		got := cse.RecordTransition(old, nw)
		var all []connectivity.State
		for _, k := range sortedIntKeys(cur) {
			all = append(all, cur[k])
		}
		if want := aggregatePrecedence(all); got != want {
			e.Violate("evaluator_precedence", "ConnectivityStateEvaluator after transition %d (child %d %v->%v) reports %v, children are %v, want %v", i, t.C, old, nw, got, all, want)
			return
		}
		if got2 := cse.CurrentState(); got2 != got {
			e.Violate("evaluator_precedence", "CurrentState %v differs from RecordTransition result %v", got2, got)
		}
	}
}

func sortedIntKeys[V any](m map[int]V) []int {
	ks := make([]int, 0, len(m))
	for k := range m {
		ks = append(ks, k)
	}
	sort.Ints(ks)
	return ks
}

// ---- es ----

type c35Child struct {
	ep      string
	lastRet int // highest update tag whose UpdateState call has returned
	snapTag int // tag last seen in a snapshot
}

type c35ES struct {
	e      *core.Env
	cc     *fakeCC
	st     *stubRun
	curSet []string // endpoint names of the last completed resolver update (sorted)
	inSet  []string // of the update in progress, nil if none
	inOp   bool
	seenCC bool
	burst  *c35Burst
	cum    map[int]map[int]int // update idx -> child id -> delegated picks (all bursts)
	cumN   map[int]int
}

type c35Burst struct {
	u      *ccUpdate
	counts map[int]int
	total  int
}

func epName(i int) string { return fmt.Sprintf("ep%d", i) }

func (h *c35ES) info(c *stubChild) *c35Child {
	if c.User == nil {
		c.User = &c35Child{lastRet: -1, snapTag: -1}
	}
	return c.User.(*c35Child)
}

func endpointName(ep resolver.Endpoint) string {
	var ss []string
	for _, a := range ep.Addresses {
		ss = append(ss, a.Addr)
	}
	return strings.Join(ss, "+")
}

func (h *c35ES) onForward(u *ccUpdate) {
	e := h.e
	css := endpointsharding.ChildStatesFromPicker(u.State.Picker)
	if u.State.Picker == nil {
		e.Violate("nil_picker", "update #%d has a nil picker", u.Idx)
		return
	}
	var names []string
	var states []connectivity.State
	for _, cs := range css {
		name := endpointName(cs.Endpoint)
		names = append(names, name)
		states = append(states, cs.State.ConnectivityState)
		p, ok := cs.State.Picker.(*stubPicker)
		if !ok {
			e.Violate("snapshot_child_state", "update #%d: child for %s has state %v with a picker the child never published (%T)", u.Idx, name, cs.State.ConnectivityState, cs.State.Picker)
			continue
		}
		in := h.info(p.Child)
		switch {
		case in.ep != name:
			e.Violate("snapshot_child_state", "update #%d: endpoint %s carries the picker of the child for %s", u.Idx, name, in.ep)
		case p.State != cs.State.ConnectivityState:
			e.Violate("snapshot_child_state", "update #%d: child for %s listed as %v with the picker it published for %v", u.Idx, name, cs.State.ConnectivityState, p.State)
		case p.Child.Closed():
			e.Violate("snapshot_closed_child", "update #%d includes child%d (%s), which was closed", u.Idx, p.Child.ID, name)
		case p.Tag < in.lastRet:
			e.Violate("snapshot_stale", "update #%d: child%d (%s) appears with its update #%d although its update #%d had already returned", u.Idx, p.Child.ID, name, p.Tag, in.lastRet)
		case p.Tag < in.snapTag:
			e.Violate("snapshot_went_back", "update #%d: child%d (%s) went back from its update #%d to #%d", u.Idx, p.Child.ID, name, in.snapTag, p.Tag)
		}
		in.snapTag = p.Tag
	}
	sort.Strings(names)
	got := strings.Join(names, ",")
	if got != strings.Join(h.curSet, ",") && (h.inSet == nil || got != strings.Join(h.inSet, ",")) {
		e.Violate("snapshot_endpoints", "update #%d lists children [%s]; resolver's endpoints are [%s] (update in progress: %v [%s])", u.Idx, got, strings.Join(h.curSet, ","), h.inSet != nil, strings.Join(h.inSet, ","))
	}
	if want := aggregatePrecedence(states); u.State.ConnectivityState != want {
		e.Violate("aggregate_precedence", "update #%d reports %v for children %v; the precedence rule gives %v", u.Idx, u.State.ConnectivityState, states, want)
	}
	if len(states) == 0 {
		e.Probe("aggregate_no_children")
	}
	if h.inOp {
		e.Probe("forward_inside_channel_call")
	} else {
		e.Probe("forward_from_child_goroutine")
	}
	n := 0
	for _, s := range states {
		if s == u.State.ConnectivityState {
			n++
		}
	}
	if n > 1 {
		e.Probe("several_children_in_aggregate_state")
	}
}

// quiescent: everything is blocked; the last update must show the latest
// state of every current child.
func (h *c35ES) quiescent() {
	e := h.e
	if !h.seenCC {
		return
	}
	u := h.cc.Latest()
	if u == nil {
		e.Violate("final_state_stale", "no state was ever reported although a resolver update was delivered")
		return
	}
	css := endpointsharding.ChildStatesFromPicker(u.State.Picker)
	var names []string
	for _, cs := range css {
		names = append(names, endpointName(cs.Endpoint))
		if p, ok := cs.State.Picker.(*stubPicker); ok {
			if last := len(p.Child.Updates) - 1; p.Tag != last {
				e.Violate("final_state_stale", "at quiescence the last update (#%d) shows child%d (%s) with its update #%d, but its latest is #%d (%v)", u.Idx, p.Child.ID, endpointName(cs.Endpoint), p.Tag, last, p.Child.Updates[last].State)
			}
		}
	}
	sort.Strings(names)
	if got := strings.Join(names, ","); got != strings.Join(h.curSet, ",") {
		e.Violate("final_state_stale", "at quiescence the last update (#%d) lists [%s], resolver's endpoints are [%s]", u.Idx, got, strings.Join(h.curSet, ","))
	}
}

func (h *c35ES) endBurst(b *c35Burst, wantTotal int) {
	e := h.e
	u := b.u
	css := endpointsharding.ChildStatesFromPicker(u.State.Picker)
	elig := map[int]bool{}
	var ids []int
	for _, cs := range css {
		if p, ok := cs.State.Picker.(*stubPicker); ok && cs.State.ConnectivityState == u.State.ConnectivityState {
			elig[p.Child.ID] = true
			ids = append(ids, p.Child.ID)
		}
	}
	if len(ids) == 0 {
		return
	}
	if b.total != wantTotal {
		e.Violate("pick_lost", "%d picks on update #%d delegated %d times", wantTotal, u.Idx, b.total)
	}
	if h.cum[u.Idx] == nil {
		h.cum[u.Idx] = map[int]int{}
	}
	for _, id := range sortedIntKeys(b.counts) {
		h.cum[u.Idx][id] += b.counts[id]
	}
	h.cumN[u.Idx] += b.total
	for _, w := range []struct {
		what   string
		counts map[int]int
		k      int
	}{{"this burst", b.counts, b.total}, {"all picks so far", h.cum[u.Idx], h.cumN[u.Idx]}} {
		n := len(ids)
		lo, hi := w.k/n, (w.k+n-1)/n
		for _, id := range ids {
			if c := w.counts[id]; c < lo || c > hi {
				e.Violate("pick_unfair", "update #%d (%v, %d children in that state): %d picks (%s), child%d got %d, want %d..%d; counts %v", u.Idx, u.State.ConnectivityState, n, w.k, w.what, id, c, lo, hi, w.counts)
				return
			}
		}
	}
	if len(ids) > 1 {
		e.Probe("fairness_checked_multi")
	}
}

func runC35ES(e *core.Env, s *c35Scenario) {
	cc := newFakeCC(e, "cc")
	st := &stubRun{E: e, Scripts: s.Children, Default: childScript{OnCCS: []childAct{{K: "state", S: int(connectivity.Connecting)}}}}
	h := &c35ES{e: e, cc: cc, st: st, cum: map[int]map[int]int{}, cumN: map[int]int{}}
	activeStubs = st
	defer func() { activeStubs = nil }()
	closed := false
	st.OnUpdateRet = func(c *stubChild, p *stubPicker) {
		if in := h.info(c); p.Tag > in.lastRet {
			in.lastRet = p.Tag
		}
	}
	st.OnCallIn = func(c *stubChild, what string) {
		if what == "UpdateClientConnState" {
			if eps := c.LastCCS.ResolverState.Endpoints; len(eps) == 1 {
				h.info(c).ep = endpointName(eps[0])
			} else {
				e.Violate("child_endpoints", "child%d got %d endpoints in its resolver state", c.ID, len(eps))
			}
		}
		if c.Closed() && what != "Close" {
			e.Violate("call_into_closed_child", "%s on child%d after Close", what, c.ID)
		}
	}
	st.OnPick = func(p *stubPicker) {
		b := h.burst
		if b == nil {
			return
		}
		b.total++
		b.counts[p.Child.ID]++
		u := b.u
		found := false
		for _, cs := range endpointsharding.ChildStatesFromPicker(u.State.Picker) {
			if cs.State.Picker == balancer.Picker(p) {
				found = true
				if cs.State.ConnectivityState != u.State.ConnectivityState {
					e.Violate("delegated_to_wrong_state", "picker of update #%d (%v) delegated to child%d, which it lists as %v", u.Idx, u.State.ConnectivityState, p.Child.ID, cs.State.ConnectivityState)
				}
			}
		}
		if !found {
			e.Violate("delegated_to_wrong_state", "picker of update #%d delegated to a picker (child%d update #%d) that is not in its child states", u.Idx, p.Child.ID, p.Tag)
		}
	}
	cc.OnUpdateState = func(u *ccUpdate) {
		if closed {
			e.Probe("update_after_close")
			return
		}
		h.onForward(u)
	}
	bal := endpointsharding.NewBalancer(cc, balancer.BuildOptions{}, stubBuilder{idx: 0}.Build, endpointsharding.Options{DisableAutoReconnect: s.NoAutoReconnect})
	for _, op := range s.Ops {
		switch op.K {
		case "ccs":
			var rs resolver.State
			seen := map[string]bool{}
			var set []string
			for _, i := range op.EP {
				rs.Endpoints = append(rs.Endpoints, resolver.Endpoint{Addresses: []resolver.Address{{Addr: epName(i)}}})
				if !seen[epName(i)] {
					seen[epName(i)] = true
					set = append(set, epName(i))
				}
			}
			sort.Strings(set)
			if set == nil {
				set = []string{}
			}
			e.Logf("ccs %v", op.EP)
			h.inSet, h.inOp, h.seenCC = set, true, true
			cc.Into(func() { bal.UpdateClientConnState(balancer.ClientConnState{ResolverState: rs}) })
			h.curSet, h.inSet, h.inOp = set, nil, false
		case "reserr":
			e.Logf("reserr")
			h.inOp = true
			cc.Into(func() { bal.ResolverError(errors.New("simulated resolver error")) })
			h.inOp = false
		case "exitidle":
			e.Logf("exitidle")
			h.inOp = true
			cc.Into(func() { bal.ExitIdle() })
			h.inOp = false
		case "picks":
			u := cc.Latest()
			if u == nil || u.State.Picker == nil || op.G == 0 || op.P == 0 {
				continue
			}
			e.Logf("picks on #%d: %d x %d", u.Idx, op.G, op.P)
			b := &c35Burst{u: u, counts: map[int]int{}}
			h.burst = b
			var wg sync.WaitGroup
			for g := 0; g < op.G; g++ {
				wg.Add(1)
				go func() {
					defer wg.Done()
					for k := 0; k < op.P; k++ {
						u.State.Picker.Pick(balancer.PickInfo{})
					}
				}()
			}
			wg.Wait()
			h.burst = nil
			h.endBurst(b, op.G*op.P)
			if op.G > 1 {
				e.Probe("concurrent_pickers")
			}
		case "sleep":
			time.Sleep(time.Duration(op.N))
		case "quiesce":
			synctest.Wait()
			h.quiescent()
			e.Probe("midrun_quiescence_check")
		}
	}
	synctest.Wait()
	h.quiescent()
	e.Logf("close")
	cc.Into(func() { closed = true; bal.Close() })
	st.WG.Wait()
	synctest.Wait()
	for _, c := range st.Children {
		if c.CloseCalls != 1 {
			e.Violate("child_close", "child%d closed %d times", c.ID, c.CloseCalls)
		}
	}
}

// ---- rr ----

type c35RRSC struct{ rawReady, healthReady bool }

func runC35RR(e *core.Env, s *c35Scenario) {
	cc := newFakeCC(e, "cc")
	env := newSCEnv(e, cc, s.Addrs)
	closing := false
	info := func(sc *fakeSC) *c35RRSC {
		a := auto(sc)
		if a.Check == nil {
			a.Check = &c35RRSC{}
		}
		return a.Check.(*c35RRSC)
	}
	sweep := func() {
		for _, sc := range cc.Subs {
			if sc.ShutdownCalled || sc.Delivered != connectivity.Ready {
				in := info(sc)
				in.rawReady, in.healthReady = false, false
			}
		}
	}
	env.Before = func(sc *fakeSC, kind string, st connectivity.State) {
		in := info(sc)
		if st == connectivity.Ready && !sc.ShutdownCalled {
			if kind == "health" {
				in.healthReady = true
			} else {
				in.rawReady = true
			}
		}
	}
	env.After = func(sc *fakeSC, kind string, st connectivity.State) {
		if kind == "health" && st != connectivity.Ready {
			info(sc).healthReady = false
		}
		sweep()
	}
	okToPick := func(sc *fakeSC) bool {
		in := info(sc)
		return !sc.ShutdownCalled && in.rawReady && in.healthReady
	}
	cc.OnUpdateState = func(u *ccUpdate) {
		if closing {
			return
		}
		if u.State.Picker == nil {
			e.Violate("nil_picker", "update #%d has a nil picker", u.Idx)
			return
		}
		css := endpointsharding.ChildStatesFromPicker(u.State.Picker)
		var states []connectivity.State
		for _, cs := range css {
			states = append(states, cs.State.ConnectivityState)
		}
		if want := aggregatePrecedence(states); u.State.ConnectivityState != want {
			e.Violate("aggregate_precedence", "round_robin update #%d reports %v for children %v; the precedence rule gives %v", u.Idx, u.State.ConnectivityState, states, want)
		}
		nagg := 0
		for _, st := range states {
			if st == u.State.ConnectivityState {
				nagg++
			}
		}
		e.Probe("rr_update_" + u.State.ConnectivityState.String())
		if nagg > 1 {
			e.Probe("rr_several_children_in_aggregate_state")
		}
	}
	bal := balancer.Get(roundrobin.Name).Build(cc, balancer.BuildOptions{})
	for _, op := range s.Ops {
		switch op.K {
		case "ccs":
			var rs resolver.State
			for _, i := range op.EP {
				var ep resolver.Endpoint
				for _, ai := range s.RREndpoints[i] {
					ep.Addresses = append(ep.Addresses, resolver.Address{Addr: s.Addrs[ai].Addr})
				}
				rs.Endpoints = append(rs.Endpoints, ep)
			}
			synctest.Wait()
			cc.Into(func() {
				e.Logf("ccs %v", op.EP)
				bal.UpdateClientConnState(balancer.ClientConnState{ResolverState: rs})
				sweep()
			})
		case "reserr":
			cc.Into(func() {
				e.Logf("reserr")
				bal.ResolverError(errors.New("simulated resolver error"))
				sweep()
			})
		case "exitidle":
			cc.Into(func() {
				e.Logf("exitidle")
				bal.ExitIdle()
				sweep()
			})
		case "sleep":
			time.Sleep(time.Duration(op.N))
		case "picks":
			u := cc.Latest()
			if u == nil || u.State.Picker == nil || op.G == 0 || op.P == 0 {
				continue
			}
			// Picks of one burst happen at one virtual instant, before any
			// subchannel event can be delivered: the burst goroutines only
			// yield inside Pick.
			e.Logf("picks on #%d (%v): %d x %d", u.Idx, u.State.ConnectivityState, op.G, op.P)
			counts := map[int]int{}
			total := 0
			var wg sync.WaitGroup
			for g := 0; g < op.G; g++ {
				wg.Add(1)
				go func() {
					defer wg.Done()
					for k := 0; k < op.P; k++ {
						res, err := u.State.Picker.Pick(balancer.PickInfo{})
						total++
						sc := asFakeSC(res.SubConn)
						if err != nil || sc == nil {
							continue
						}
						counts[sc.ID]++
						if cc.Latest() != u {
							continue // superseded meanwhile: the channel would not use it any more
						}
						if u.State.ConnectivityState != connectivity.Ready {
							e.Violate("rr_pick_not_ready", "picker of update #%d (%v) returned sc%d", u.Idx, u.State.ConnectivityState, sc.ID)
						} else if !okToPick(sc) {
							e.Violate("rr_pick_not_ready", "picker of update #%d returned sc%d (%s) whose latest state is %v / health %v (shut down %v)", u.Idx, sc.ID, sc.Addr(), sc.Delivered, sc.HealthDelivered, sc.ShutdownCalled)
						}
					}
				}()
			}
			wg.Wait()
			if u.State.ConnectivityState == connectivity.Ready {
				n := 0
				for _, cs := range endpointsharding.ChildStatesFromPicker(u.State.Picker) {
					if cs.State.ConnectivityState == connectivity.Ready {
						n++
					}
				}
				if n > 0 {
					lo, hi := total/n, (total+n-1)/n
					got := 0
					for _, id := range sortedIntKeys(counts) {
						got++
						if c := counts[id]; c < lo || c > hi {
							e.Violate("rr_pick_unfair", "update #%d: %d picks over %d READY endpoints, sc%d got %d (want %d..%d); counts %v", u.Idx, total, n, id, c, lo, hi, counts)
						}
					}
					if got > n || (total >= n && got != n) {
						e.Violate("rr_pick_unfair", "update #%d: %d picks over %d READY endpoints reached %d distinct subchannels; counts %v", u.Idx, total, n, got, counts)
					}
					e.Probe("rr_fairness_checked")
					if n > 1 {
						e.Probe("rr_fairness_checked_multi")
					}
				}
			}
		}
	}
	time.Sleep(3 * time.Second)
	synctest.Wait()
	cc.Into(func() {
		e.Logf("close")
		closing = true
		env.Stopped = true
		bal.Close()
		cc.Closed = true
	})
	env.WG.Wait()
	synctest.Wait()
}

func runC35(e *core.Env, s *c35Scenario) {
	c35RiderCSE(e, s.CSE)
	switch s.Mode {
	case "es":
		runC35ES(e, s)
	case "rr":
		runC35RR(e, s)
	case "wagg":
		runC35WAgg(e, s)
	}
}

func init() { core.Register("C35", genC35, runC35) }
