package wl

// A small linearizability checker for histories in which operations overlap
// (children of a parent policy call UpdateState from their own goroutines while
// the channel calls into the parent) and the only thing observed besides the
// operations' call/return points is an ordered list of outputs (the calls the
// parent made on the recording ClientConn).
//
// A history is accepted iff there is a total order of the operations that
// respects real time (op A before op B whenever A returned before B was called)
// such that a sequential reference model, run in that order, emits exactly the
// observed outputs in the observed order, each output inside the call/return
// window of the operation that emitted it.

type linOp struct {
	Call, Ret uint64 // event sequence numbers (Ret >= Call)
	Data      any
	Desc      string
}

type linObs struct {
	Seq  uint64
	Data any
	Desc string
}

type linSpec[S comparable] struct {
	Init S
	// Step applies op to s and returns the next state, the outputs the model
	// emits for this operation, and whether the operation is admissible in s
	// at all (false rejects this order).
	Step func(s S, op *linOp) (S, []any, bool)
	// Accept, if set, must hold for the state after the last operation.
	Accept func(s S) bool
	// Match reports whether a model output equals an observed one.
	Match func(emitted any, obs *linObs) bool
	// Inert, if set, reports that op changes nothing and emits nothing in s
	// and in every state reachable from s. Such an operation commutes with
	// everything, so the search places it as early as possible instead of
	// branching over its position.
	Inert func(s S, op *linOp) bool
}

type linKey[S comparable] struct {
	done [4]uint64
	s    S
	oi   int
}

type linResult[S comparable] struct {
	OK        bool
	Exhausted bool // search budget exceeded: no verdict
	Final     S
	Order     []int // indices into ops (a witness) when OK
	// Deepest prefix reached, for diagnostics when !OK.
	BestOrder []int
	BestObs   int
	Nodes     int
}

// linCheck searches for a linearization. len(ops) must be <= 256.
func linCheck[S comparable](spec linSpec[S], ops []*linOp, obs []*linObs, budget int) linResult[S] {
	n := len(ops)
	res := linResult[S]{}
	if n > 256 {
		res.Exhausted = true
		return res
	}
	seen := map[linKey[S]]bool{}
	var done [4]uint64
	isDone := func(i int) bool { return done[i>>6]&(1<<(uint(i)&63)) != 0 }
	order := make([]int, 0, n)
	var dfs func(s S, oi int, ndone int) bool
	dfs = func(s S, oi int, ndone int) bool {
		if ndone == n {
			if oi == len(obs) && (spec.Accept == nil || spec.Accept(s)) {
				res.Final = s
				res.Order = append([]int(nil), order...)
				return true
			}
			return false
		}
		res.Nodes++
		if res.Nodes > budget {
			res.Exhausted = true
			return false
		}
		k := linKey[S]{done: done, s: s, oi: oi}
		if seen[k] {
			return false
		}
		seen[k] = true
		if len(order) > len(res.BestOrder) || (len(order) == len(res.BestOrder) && oi > res.BestObs) {
			res.BestOrder = append(res.BestOrder[:0], order...)
			res.BestObs = oi
		}
		// an op may go next iff no other pending op returned before it was called
		minRet := ^uint64(0)
		for i := 0; i < n; i++ {
			if !isDone(i) && ops[i].Ret < minRet {
				minRet = ops[i].Ret
			}
		}
		if spec.Inert != nil {
			for i := 0; i < n; i++ {
				if isDone(i) || ops[i].Call > minRet || !spec.Inert(s, ops[i]) {
					continue
				}
				done[i>>6] |= 1 << (uint(i) & 63)
				order = append(order, i)
				ok := dfs(s, oi, ndone+1)
				if !ok {
					order = order[:len(order)-1]
					done[i>>6] &^= 1 << (uint(i) & 63)
				}
				return ok
			}
		}
		for i := 0; i < n; i++ {
			if isDone(i) || ops[i].Call > minRet {
				continue
			}
			ns, outs, ok := spec.Step(s, ops[i])
			noi := oi
			for _, o := range outs {
				if noi >= len(obs) || !spec.Match(o, obs[noi]) || obs[noi].Seq < ops[i].Call || obs[noi].Seq > ops[i].Ret {
					ok = false
					break
				}
				noi++
			}
			if !ok {
				continue
			}
			done[i>>6] |= 1 << (uint(i) & 63)
			order = append(order, i)
			if dfs(ns, noi, ndone+1) {
				return true
			}
			order = order[:len(order)-1]
			done[i>>6] &^= 1 << (uint(i) & 63)
			if res.Exhausted {
				return false
			}
		}
		return false
	}
	res.OK = dfs(spec.Init, 0, 0)
	return res
}
