package wl

// C35, sub-world "wagg": the state aggregator of weighted_target
// (balancer/weightedtarget/weightedaggregator) used the way the policy uses
// it: started once; Add / Remove / Pause / Resume from one owner goroutine
// (the policy's UpdateClientConnState); UpdateState from the children's
// goroutines; stopped at the end.
//
// The aggregator documents one deliberate deviation from the plain precedence
// rule: a child that goes TRANSIENT_FAILURE -> CONNECTING keeps counting as
// TRANSIENT_FAILURE until it reports something else. The reference model
// aggregates these "effective" states with the precedence rule of the
// statement; the overlapping calls are ordered by the linearizability checker.

import (
	"fmt"
	"sync"
	"time"

	"google.golang.org/grpc/balancer"
	"google.golang.org/grpc/balancer/weightedtarget/weightedaggregator"
	"google.golang.org/grpc/connectivity"
	"google.golang.org/grpc/internal/wrr"
	"google.golang.org/grpc/internal/zzverif/core"
)

type waChild struct {
	Present bool
	Eff     int8 // state used for aggregation
	Last    int8 // last reported state
}

type waModel struct {
	C      [c35MaxEP]waChild
	Paused bool
	Need   bool
}

type waOp struct {
	K  string
	ID int
	S  connectivity.State
}

func waAgg(m waModel) connectivity.State {
	var ss []connectivity.State
	for _, c := range m.C {
		if c.Present {
			ss = append(ss, connectivity.State(c.Eff))
		}
	}
	return aggregatePrecedence(ss)
}

func waEmit(m waModel) (waModel, []any, bool) {
	if m.Paused {
		m.Need = true
		return m, nil, true
	}
	return m, []any{waAgg(m)}, true
}

func waStep(m waModel, op *linOp) (waModel, []any, bool) {
	d := op.Data.(*waOp)
	switch d.K {
	case "add":
		m.C[d.ID] = waChild{Present: true, Eff: int8(connectivity.Connecting), Last: int8(connectivity.Connecting)}
		return waEmit(m)
	case "remove":
		if !m.C[d.ID].Present {
			return m, nil, true
		}
		m.C[d.ID] = waChild{}
		return waEmit(m)
	case "pause":
		m.Paused, m.Need = true, false
		return m, nil, true
	case "need":
		m.Need = true
		return m, nil, true
	case "resume":
		m.Paused = false
		if m.Need {
			m.Need = false
			return m, []any{waAgg(m)}, true
		}
		return m, nil, true
	case "state":
		c := m.C[d.ID]
		if !c.Present {
			return m, nil, true // removed or never added: ignored
		}
		if !(connectivity.State(c.Last) == connectivity.TransientFailure && d.S == connectivity.Connecting) {
			c.Eff = int8(d.S)
		}
		c.Last = int8(d.S)
		m.C[d.ID] = c
		return waEmit(m)
	}
	return m, nil, true
}

type waPicker struct {
	id    int
	state connectivity.State
	h     *waH
}

func (p *waPicker) Pick(balancer.PickInfo) (balancer.PickResult, error) {
	p.h.picked = append(p.h.picked, p)
	return balancer.PickResult{}, nil
}

type waH struct {
	e      *core.Env
	ops    []*linOp
	obs    []*linObs
	picked []*waPicker
}

func runC35WAgg(e *core.Env, s *c35Scenario) {
	cc := newFakeCC(e, "cc")
	h := &waH{e: e}
	stopped := false
	cc.OnUpdateState = func(u *ccUpdate) {
		if stopped {
			e.Violate("update_after_stop", "aggregator called UpdateState after Stop")
			return
		}
		h.obs = append(h.obs, &linObs{Seq: u.Seq, Data: u.State.ConnectivityState, Desc: u.State.ConnectivityState.String()})
		if u.State.Picker == nil {
			e.Violate("nil_picker", "aggregator published a nil picker")
			return
		}
		// only READY children may be delegated to when the aggregate is READY
		if u.State.ConnectivityState == connectivity.Ready {
			h.picked = nil
			for i := 0; i < 4; i++ {
				u.State.Picker.Pick(balancer.PickInfo{})
			}
			for _, p := range h.picked {
				if p.state != connectivity.Ready {
					e.Violate("delegated_to_wrong_state", "aggregate READY, but the picker delegates to child %d whose picker was published with %v", p.id, p.state)
				}
			}
			if len(h.picked) == 0 {
				e.Violate("delegated_to_wrong_state", "aggregate READY, but the picker delegates to nobody")
			}
			e.Probe("wagg_ready_picker_checked")
		}
	}
	agg := weightedaggregator.New(cc, nil, wrr.NewRandom)
	agg.Start()
	call := func(d *waOp, f func()) {
		e.Logf("%s %d %v call", d.K, d.ID, d.S)
		op := &linOp{Call: e.Seq, Data: d, Desc: fmt.Sprintf("%s(%d,%v)", d.K, d.ID, d.S)}
		h.ops = append(h.ops, op)
		f()
		e.Logf("%s %d ret", d.K, d.ID)
		op.Ret = e.Seq
	}
	var wg sync.WaitGroup
	for g, list := range s.WOps {
		wg.Add(1)
		go func() {
			defer wg.Done()
			present := map[int]bool{}
			paused := false
			for _, o := range list {
				id := fmt.Sprintf("t%d", o.ID)
				switch o.K {
				case "sleep":
					time.Sleep(time.Duration(o.N))
				case "add":
					if g != 0 || present[o.ID] {
						continue // the policy only adds targets it does not have
					}
					present[o.ID] = true
					call(&waOp{K: "add", ID: o.ID}, func() { agg.Add(id, uint32(1+o.ID)) })
				case "remove":
					if g != 0 {
						continue
					}
					delete(present, o.ID)
					call(&waOp{K: "remove", ID: o.ID}, func() { agg.Remove(id) })
				case "pause": // pause/resume come in pairs, as in the policy's UpdateClientConnState
					if g == 0 && !paused {
						paused = true
						call(&waOp{K: "pause"}, agg.PauseStateUpdates)
					}
				case "resume":
					if g == 0 && paused {
						paused = false
						call(&waOp{K: "resume"}, agg.ResumeStateUpdates)
					}
				case "build":
					if g == 0 && paused {
						call(&waOp{K: "need"}, agg.NeedUpdateStateOnResume)
					}
				case "state":
					st := connectivity.State(o.S)
					call(&waOp{K: "state", ID: o.ID, S: st}, func() {
						agg.UpdateState(id, balancer.State{ConnectivityState: st, Picker: &waPicker{id: o.ID, state: st, h: h}})
					})
				}
			}
			if paused {
				call(&waOp{K: "resume"}, agg.ResumeStateUpdates)
			}
		}()
	}
	wg.Wait()
	agg.Stop()
	stopped = true
	res := linCheck(linSpec[waModel]{Step: waStep, Match: func(em any, o *linObs) bool { return em.(connectivity.State) == o.Data.(connectivity.State) }}, h.ops, h.obs, 300000)
	switch {
	case res.Exhausted:
		e.Probe("lin_budget_exceeded")
	case !res.OK:
		msg := fmt.Sprintf("matched %d/%d reported states; order so far:", res.BestObs, len(h.obs))
		for _, i := range res.BestOrder {
			msg += " " + h.ops[i].Desc
		}
		msg += " | all calls:"
		for _, o := range h.ops {
			msg += fmt.Sprintf(" %s[%d,%d]", o.Desc, o.Call, o.Ret)
		}
		msg += " | reported:"
		for _, o := range h.obs {
			msg += fmt.Sprintf(" %s@%d", o.Desc, o.Seq)
		}
		e.Violate("wagg_aggregate_mismatch", "the states the aggregator reported are not the precedence rule applied to its children in any order of the overlapping calls: %s", msg)
	default:
		m := waModel{}
		for _, i := range res.Order {
			d := h.ops[i].Data.(*waOp)
			before := m
			m, _, _ = waStep(m, h.ops[i])
			if d.K == "state" && before.C[d.ID].Present && connectivity.State(before.C[d.ID].Last) == connectivity.TransientFailure && d.S == connectivity.Connecting {
				e.Probe("wagg_sticky_tf_child")
			}
			if d.K == "state" && !before.C[d.ID].Present {
				e.Probe("wagg_update_from_absent_child")
			}
			if d.K == "resume" && before.Need {
				e.Probe("wagg_resume_flushes")
			}
		}
		e.Probe("wagg_checked")
	}
}
