// Package wl is the "LB policy" world: a real load-balancing policy behind
// balancer.Builder, driven through a recording fake balancer.ClientConn /
// SubConn (fakecc_test.go). Resolver updates, subchannel state events and child
// policy behaviour are scripted by the scenario; there is no network and no
// real channel.
package wl

import (
	"encoding/json"
	"fmt"
	"io"
	"testing"

	"google.golang.org/grpc/balancer"
	"google.golang.org/grpc/connectivity"
	"google.golang.org/grpc/internal/balancer/gracefulswitch"
	"google.golang.org/grpc/resolver"

	"google.golang.org/grpc/grpclog"
	"google.golang.org/grpc/internal/zzverif/core"
)

func init() {
	grpclog.SetLoggerV2(grpclog.NewLoggerV2(io.Discard, io.Discard, io.Discard))
}

// warm runs, outside any bubble, the lazily initialised paths (reflection and
// encoding/json caches, fmt scanning) that only some scenarios reach: first-use
// initialisation inside a run would consume draws of the seeded runtime
// streams and make a seed behave differently alone and inside a batch.
func warm() {
	for i := 0; i < nStubBuilders; i++ {
		gracefulswitch.ParseConfig(json.RawMessage(fmt.Sprintf(`[{%q: {}}]`, stubName(i))))
	}
	var a, b int
	fmt.Sscanf("child1-sc2", "child%d-sc%d", &a, &b)
	_ = fmt.Sprintf("%v %v %q %x", connectivity.Ready, fmt.Errorf("x: %w", io.EOF), "s", 1.5)
	// gracefulswitch's "NewSubConn from a deleted balancer" error (%T, %p)
	w := &warmBuilder{}
	gsb := gracefulswitch.NewBalancer(warmCC{}, balancer.BuildOptions{})
	gsb.SwitchTo(w)
	gsb.Close()
	w.cc.NewSubConn([]resolver.Address{{Addr: "x"}}, balancer.NewSubConnOptions{})
	warmMore()
}

type warmCC struct{ balancer.ClientConn }

func (warmCC) UpdateState(balancer.State) {}

type warmBuilder struct{ cc balancer.ClientConn }

func (w *warmBuilder) Name() string { return "zzverif_warm" }
func (w *warmBuilder) Build(cc balancer.ClientConn, _ balancer.BuildOptions) balancer.Balancer {
	w.cc = cc
	return warmBal{}
}

type warmBal struct{}

func (warmBal) UpdateClientConnState(balancer.ClientConnState) error { return nil }
func (warmBal) ResolverError(error)                                  {}
func (warmBal) UpdateSubConnState(balancer.SubConn, balancer.SubConnState) {
}
func (warmBal) Close()    {}
func (warmBal) ExitIdle() {}

func TestSimWorker(t *testing.T) {
	core.GCBetween = false
	core.Warmups = 20
	warm()
	core.WorkerMain(t)
}

// warmMore is extended by the individual checks.
func warmMore() {
	for _, f := range warmFns {
		f()
	}
}

var warmFns []func()
