package wl

// Recording fake balancer.ClientConn / balancer.SubConn shared by every check
// of the LB-policy world.
//
// Rules of use (see HARNESS.md):
//   - All bookkeeping here is lock-free: code between two synchronisation
//     operations of one goroutine is atomic under detrt.
//   - Calls INTO one policy instance (UpdateClientConnState, ResolverError,
//     ExitIdle, Close, SubConn state/health listeners) must be serialised, as
//     the real channel does with its CallbackSerializer. Funnel them through
//     (*fakeCC).Into, which holds one mutex around the call (a durable block
//     under detrt; waiters are woken in a seeded order, so simultaneous events
//     are explored in every order).
//   - Calls the policy makes OUT (NewSubConn, UpdateState, Connect, Shutdown,
//     ResolveNow ...) are recorded, logged to the event log, and reported to
//     the optional On* hooks synchronously, i.e. inside the policy's critical
//     section. Hooks must never call into the policy.
//   - Pick() on a published picker may be called from any goroutine at any
//     time (it is not serialised in the real channel either).
//   - Policies keep SubConns as map keys (gracefulswitch, base, ...). A Go map
//     keyed by pointers iterates in an order that depends on heap addresses,
//     which differ between a batch process and a one-seed process. The SubConn
//     handed to the policy is therefore a small value (scRef: ClientConn
//     number + SubConn number) whose hash depends on the run only; use
//     asFakeSC to get from a balancer.SubConn back to the *fakeSC record.
//   - The real channel takes its own mutex (cc.mu) at the entry of UpdateState,
//     NewSubConn, ResolveNow and SubConn.Shutdown. The fake models exactly that
//     one synchronisation operation (lock+unlock of entryMu before anything is
//     recorded), so a policy that calls out without holding its own lock can be
//     descheduled at the same place as in production. Set NoEntrySync to turn
//     it off.

import (
	"fmt"
	"sort"
	"strings"
	"sync"

	"google.golang.org/grpc/balancer"
	"google.golang.org/grpc/connectivity"
	estats "google.golang.org/grpc/experimental/stats"
	"google.golang.org/grpc/internal"
	istats "google.golang.org/grpc/internal/stats"
	"google.golang.org/grpc/internal/zzverif/core"
	"google.golang.org/grpc/resolver"
)

// ccUpdate is one recorded ClientConn.UpdateState call.
type ccUpdate struct {
	Idx   int
	Seq   uint64 // event sequence number at the call
	SimNs int64
	State balancer.State
	User  any // per-check annotation
}

// fakeCC implements balancer.ClientConn.
type fakeCC struct {
	internal.EnforceClientConnEmbedding
	E    *core.Env
	Name string

	serial   sync.Mutex // the "callback serializer"
	inPolicy int
	// entryMu stands for the channel's cc.mu (see the package comment).
	entryMu     sync.Mutex
	NoEntrySync bool

	Subs        []*fakeSC   // in creation order; Subs[i].ID == i
	Updates     []*ccUpdate // every UpdateState call, in order
	ResolveNows int
	// Closed makes NewSubConn fail (channel shutting down).
	Closed bool

	// Hooks, all optional; called synchronously from the policy's call.
	OnNewSubConn     func(sc *fakeSC)
	OnUpdateState    func(u *ccUpdate)
	OnConnect        func(sc *fakeSC)
	OnShutdown       func(sc *fakeSC)
	OnResolveNow     func()
	OnHealthRegister func(sc *fakeSC)
	// FailNewSubConn, when it returns a non-nil error, makes NewSubConn fail.
	FailNewSubConn func(addrs []resolver.Address) error

	mr  estats.MetricsRecorder
	num int
}

// fakeCCs is the per-run registry scRef resolves through (one run at a time
// per process; reset when a new run's Env shows up).
var (
	fakeCCs   []*fakeCC
	fakeCCEnv *core.Env
)

func newFakeCC(e *core.Env, name string) *fakeCC {
	if fakeCCEnv != e {
		fakeCCEnv, fakeCCs = e, nil
	}
	cc := &fakeCC{E: e, Name: name, mr: istats.NewMetricsRecorderList(nil), num: len(fakeCCs)}
	fakeCCs = append(fakeCCs, cc)
	return cc
}

// scRef is the balancer.SubConn value handed to the policy under test.
type scRef struct {
	internal.EnforceSubConnEmbedding
	CC, ID int
}

func (r scRef) rec() *fakeSC                         { return fakeCCs[r.CC].Subs[r.ID] }
func (r scRef) String() string                       { return fmt.Sprintf("sc%d", r.ID) }
func (r scRef) UpdateAddresses(a []resolver.Address) { r.rec().UpdateAddresses(a) }
func (r scRef) Connect()                             { r.rec().Connect() }
func (r scRef) Shutdown()                            { r.rec().Shutdown() }
func (r scRef) RegisterHealthListener(l func(balancer.SubConnState)) {
	r.rec().RegisterHealthListener(l)
}
func (r scRef) GetOrBuildProducer(b balancer.ProducerBuilder) (balancer.Producer, func()) {
	return r.rec().GetOrBuildProducer(b)
}

// asFakeSC returns the record behind a SubConn the policy holds (nil if sc is
// nil or foreign).
func asFakeSC(sc balancer.SubConn) *fakeSC {
	switch v := sc.(type) {
	case scRef:
		return v.rec()
	case *fakeSC:
		return v
	}
	return nil
}

// Into runs f (a call into the policy under test) serialised with every other
// Into call of this ClientConn.
func (cc *fakeCC) Into(f func()) {
	cc.serial.Lock()
	cc.inPolicy++
	if cc.inPolicy != 1 {
		panic("harness bug: concurrent calls into the policy")
	}
	f()
	cc.inPolicy--
	cc.serial.Unlock()
}

func (cc *fakeCC) entry() {
	if !cc.NoEntrySync {
		cc.entryMu.Lock()
		cc.entryMu.Unlock()
	}
}

// Latest returns the most recent UpdateState call, or nil.
func (cc *fakeCC) Latest() *ccUpdate {
	if len(cc.Updates) == 0 {
		return nil
	}
	return cc.Updates[len(cc.Updates)-1]
}

func addrsString(addrs []resolver.Address) string {
	var ss []string
	for _, a := range addrs {
		ss = append(ss, a.Addr)
	}
	return strings.Join(ss, ",")
}

func (cc *fakeCC) NewSubConn(addrs []resolver.Address, opts balancer.NewSubConnOptions) (balancer.SubConn, error) {
	cc.entry()
	if cc.Closed {
		cc.E.Logf("%s.NewSubConn [%s] -> closed", cc.Name, addrsString(addrs))
		return nil, fmt.Errorf("fakecc: channel is closing")
	}
	if len(addrs) == 0 {
		cc.E.Logf("%s.NewSubConn [] -> error", cc.Name)
		return nil, fmt.Errorf("fakecc: cannot create SubConn with empty address list")
	}
	if cc.FailNewSubConn != nil {
		if err := cc.FailNewSubConn(addrs); err != nil {
			cc.E.Logf("%s.NewSubConn [%s] -> injected error", cc.Name, addrsString(addrs))
			return nil, err
		}
	}
	sc := &fakeSC{CC: cc, ID: len(cc.Subs), Addrs: append([]resolver.Address(nil), addrs...), Listener: opts.StateListener,
		Delivered: connectivity.Idle, DeliveredDone: connectivity.Idle, HealthDelivered: connectivity.Idle}
	cc.Subs = append(cc.Subs, sc)
	cc.E.Logf("%s.NewSubConn sc%d [%s]", cc.Name, sc.ID, addrsString(addrs))
	sc.CreatedSeq = cc.E.Seq
	if cc.OnNewSubConn != nil {
		cc.OnNewSubConn(sc)
	}
	return sc.Ref(), nil
}

func (cc *fakeCC) RemoveSubConn(sc balancer.SubConn) {
	cc.E.Logf("%s.RemoveSubConn", cc.Name)
	sc.Shutdown()
}

func (cc *fakeCC) UpdateAddresses(sc balancer.SubConn, addrs []resolver.Address) {
	if f := asFakeSC(sc); f != nil {
		cc.E.Logf("%s.UpdateAddresses sc%d [%s]", cc.Name, f.ID, addrsString(addrs))
		f.Addrs = append([]resolver.Address(nil), addrs...)
	}
}

func (cc *fakeCC) UpdateState(s balancer.State) {
	cc.entry()
	u := &ccUpdate{Idx: len(cc.Updates), State: s}
	cc.E.Logf("%s.UpdateState #%d %v", cc.Name, u.Idx, s.ConnectivityState)
	u.Seq, u.SimNs = cc.E.Seq, cc.E.SimNs()
	cc.Updates = append(cc.Updates, u)
	if cc.OnUpdateState != nil {
		cc.OnUpdateState(u)
	}
}

func (cc *fakeCC) ResolveNow(resolver.ResolveNowOptions) {
	cc.entry()
	cc.ResolveNows++
	cc.E.Logf("%s.ResolveNow", cc.Name)
	if cc.OnResolveNow != nil {
		cc.OnResolveNow()
	}
}

func (cc *fakeCC) Target() string                          { return "fake:///" + cc.Name }
func (cc *fakeCC) MetricsRecorder() estats.MetricsRecorder { return cc.mr }

// LiveSubs returns the SubConns on which Shutdown has not been called.
func (cc *fakeCC) LiveSubs() []*fakeSC {
	var out []*fakeSC
	for _, sc := range cc.Subs {
		if !sc.ShutdownCalled {
			out = append(out, sc)
		}
	}
	return out
}

// fakeSC implements balancer.SubConn.
type fakeSC struct {
	internal.EnforceSubConnEmbedding
	CC    *fakeCC
	ID    int
	Addrs []resolver.Address

	Listener       func(balancer.SubConnState)
	HealthListener func(balancer.SubConnState)
	HealthRegs     int

	CreatedSeq     uint64
	Connects       int
	ConnectSeqs    []uint64
	ShutdownCalled bool
	ShutdownSeq    uint64
	ShutdownCalls  int

	// Delivered is the last connectivity state whose delivery to the state
	// listener has started; DeliveredDone the last whose listener call
	// returned. Both start as IDLE (a new subchannel is IDLE).
	Delivered       connectivity.State
	DeliveredDone   connectivity.State
	Deliveries      int
	HealthDelivered connectivity.State

	User any // per-check data
}

func (sc *fakeSC) String() string { return fmt.Sprintf("sc%d", sc.ID) }

// Ref is the value the policy holds for this SubConn.
func (sc *fakeSC) Ref() balancer.SubConn { return scRef{CC: sc.CC.num, ID: sc.ID} }

// Addr is the first address of the SubConn.
func (sc *fakeSC) Addr() string {
	if len(sc.Addrs) == 0 {
		return ""
	}
	return sc.Addrs[0].Addr
}

func (sc *fakeSC) UpdateAddresses(addrs []resolver.Address) { sc.CC.UpdateAddresses(sc, addrs) }

func (sc *fakeSC) Connect() {
	sc.Connects++
	sc.CC.E.Logf("%s.sc%d.Connect", sc.CC.Name, sc.ID)
	sc.ConnectSeqs = append(sc.ConnectSeqs, sc.CC.E.Seq)
	if sc.CC.OnConnect != nil {
		sc.CC.OnConnect(sc)
	}
}

func (sc *fakeSC) GetOrBuildProducer(balancer.ProducerBuilder) (balancer.Producer, func()) {
	return nil, func() {}
}

func (sc *fakeSC) Shutdown() {
	sc.CC.entry()
	sc.ShutdownCalls++
	sc.CC.E.Logf("%s.sc%d.Shutdown", sc.CC.Name, sc.ID)
	if sc.ShutdownCalled {
		return
	}
	sc.ShutdownCalled = true
	sc.ShutdownSeq = sc.CC.E.Seq
	if sc.CC.OnShutdown != nil {
		sc.CC.OnShutdown(sc)
	}
}

// RegisterHealthListener follows the real channel: a listener registered while
// the subchannel's delivered state is not READY is dropped.
func (sc *fakeSC) RegisterHealthListener(l func(balancer.SubConnState)) {
	sc.CC.E.Logf("%s.sc%d.RegisterHealthListener state=%v", sc.CC.Name, sc.ID, sc.Delivered)
	if sc.Delivered != connectivity.Ready {
		return
	}
	sc.HealthListener = l
	sc.HealthRegs++
	sc.HealthDelivered = connectivity.Connecting
	if sc.CC.OnHealthRegister != nil {
		sc.CC.OnHealthRegister(sc)
	}
}

// Deliver passes a connectivity state to the policy's state listener. It must
// be called from inside (*fakeCC).Into. Like the real channel it invalidates
// the health listener on every connectivity change.
func (sc *fakeSC) Deliver(s connectivity.State, err error) {
	if sc.CC.inPolicy != 1 {
		panic("harness bug: Deliver outside Into")
	}
	sc.Deliveries++
	sc.Delivered = s
	sc.HealthListener = nil
	sc.CC.E.Logf("%s.sc%d <- %v", sc.CC.Name, sc.ID, s)
	if sc.Listener != nil {
		sc.Listener(balancer.SubConnState{ConnectivityState: s, ConnectionError: err})
	}
	sc.DeliveredDone = s
}

// DeliverHealth passes a health state to the health listener registered as
// generation gen (the value of HealthRegs when the update was produced); like
// the real channel it drops the update if the listener has been replaced or
// invalidated by a connectivity change since. Must be called from inside Into.
func (sc *fakeSC) DeliverHealth(gen int, s connectivity.State, err error) bool {
	if sc.CC.inPolicy != 1 {
		panic("harness bug: DeliverHealth outside Into")
	}
	if sc.HealthListener == nil || gen != sc.HealthRegs || sc.Delivered != connectivity.Ready {
		return false
	}
	sc.HealthDelivered = s
	sc.CC.E.Logf("%s.sc%d <- health %v", sc.CC.Name, sc.ID, s)
	sc.HealthListener(balancer.SubConnState{ConnectivityState: s, ConnectionError: err})
	return true
}

// sortedKeys returns the keys of a string-keyed map in order (harness code
// must never log in map order).
func sortedKeys[V any](m map[string]V) []string {
	ks := make([]string, 0, len(m))
	for k := range m {
		ks = append(ks, k)
	}
	sort.Strings(ks)
	return ks
}

// aggregatePrecedence is the rule of gRPC's state aggregation as given in the
// statement of C35: READY > CONNECTING > IDLE > TRANSIENT_FAILURE, and
// TRANSIENT_FAILURE for no children.
func aggregatePrecedence(states []connectivity.State) connectivity.State {
	for _, want := range []connectivity.State{connectivity.Ready, connectivity.Connecting, connectivity.Idle} {
		for _, s := range states {
			if s == want {
				return want
			}
		}
	}
	return connectivity.TransientFailure
}

func genSched(r *core.Rand, seed uint64) core.Sched {
	return core.Sched{SchedSeed: core.Mix(seed, 11), AuxSeed: core.Mix(seed, 12), YieldThr: core.Pick(r, uint32(0), 200, 700, 3300, 13000, 30000)}
}
