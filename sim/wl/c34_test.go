package wl

// C34: pick_first connects in order, picks only READY, keeps sticky
// TRANSIENT_FAILURE; address pre-processing.
//
// Real: balancer/pickfirst (the policy, its happy-eyeballs timer, its
// pickers). Stubbed: the channel (recording ClientConn, subchannel state
// machines of chanenv_test.go with scripted outcomes and timing, resolver
// updates from a timeline goroutine, picker-user goroutines).

import (
	"errors"
	"fmt"
	"strings"
	"testing/synctest"
	"time"

	"google.golang.org/grpc/balancer"
	"google.golang.org/grpc/balancer/pickfirst"
	"google.golang.org/grpc/connectivity"
	"google.golang.org/grpc/internal/zzverif/core"
	"google.golang.org/grpc/resolver"
	"google.golang.org/grpc/serviceconfig"
)

type c34Update struct {
	AtNs      int64   `json:"at_ns"`               // gap to the previous timeline entry
	K         string  `json:"k"`                   // addrs | error | exitidle
	Endpoints [][]int `json:"endpoints,omitempty"` // indices into Addrs; empty = empty resolver result
	Flat      bool    `json:"flat,omitempty"`      // deliver as resolver.State.Addresses (no Endpoints)
	Shuffle   bool    `json:"shuffle,omitempty"`
}

type c34Picker struct {
	StartNs int64 `json:"start_ns"`
	EveryNs int64 `json:"every_ns"`
	N       int   `json:"n"`
}

type c34Scenario struct {
	Sched   core.Sched  `json:"sched"`
	Addrs   []addrPlan  `json:"addrs"`
	Health  bool        `json:"health,omitempty"` // resolver state carries pickfirst.EnableHealthListener
	Updates []c34Update `json:"updates"`
	Pickers []c34Picker `json:"pickers,omitempty"`
	TailNs  int64       `json:"tail_ns"`
}

func (s *c34Scenario) SchedP() *core.Sched { return &s.Sched }
func (s *c34Scenario) Shape() string {
	sh, na := 0, 0
	for _, u := range s.Updates {
		if u.Shuffle {
			sh++
		}
		for _, e := range u.Endpoints {
			na += len(e)
		}
	}
	return fmt.Sprintf("addrs=%d updates=%d listed=%d shuffles=%d pickers=%d health=%v", len(s.Addrs), len(s.Updates), na, sh, len(s.Pickers), s.Health)
}

func (s *c34Scenario) Validate() error {
	for _, a := range s.Addrs {
		if a.Addr == "" {
			return errors.New("empty address")
		}
		for _, o := range a.Outcomes {
			if o.D < 0 || o.Life < 0 || o.Backoff < 0 {
				return errors.New("negative time")
			}
			for _, h := range o.Health {
				if h.S < 1 || h.S > 3 || h.D < 0 {
					return errors.New("bad health step")
				}
			}
		}
	}
	for _, u := range s.Updates {
		if u.AtNs < 0 {
			return errors.New("negative time")
		}
		n := 0
		for _, e := range u.Endpoints {
			if len(e) == 0 {
				return errors.New("empty endpoint")
			}
			for _, i := range e {
				if i < 0 || i >= len(s.Addrs) {
					return errors.New("address index out of range")
				}
			}
			n++
		}
		if u.Shuffle && n > 5 {
			return errors.New("too many endpoints to shuffle")
		}
	}
	for _, p := range s.Pickers {
		if p.StartNs < 0 || p.EveryNs < 0 || p.N < 0 || p.N > 64 {
			return errors.New("bad picker")
		}
	}
	if s.TailNs < 0 {
		return errors.New("negative tail")
	}
	return nil
}

const c34Delay = int64(250 * time.Millisecond) // Connection Attempt Delay, gRFC A61 / RFC 8305

var c34Times = []int64{0, 1, 1000, 1e6, 100e6, c34Delay - 1, c34Delay, c34Delay + 1, 300e6, 2 * c34Delay, 1e9}

func c34AddrString(fam, i int) string {
	switch fam {
	case 0:
		return fmt.Sprintf("10.0.0.%d:80", i+1)
	case 1:
		return fmt.Sprintf("[fd00::%d]:80", i+1)
	}
	return fmt.Sprintf("host%d.example:80", i+1)
}

// c34Family classifies the addresses this generator produces.
func c34Family(a string) int {
	switch {
	case strings.HasPrefix(a, "10."):
		return 0
	case strings.HasPrefix(a, "["):
		return 1
	}
	return 2
}

func genC34(seed uint64, tier string) *c34Scenario {
	r := core.NewRand(seed)
	s := &c34Scenario{Sched: genSched(r, seed)}
	maxUpd, maxAddr := 4, 6
	if tier == "thorough" {
		maxUpd, maxAddr = 8, 8
	}
	s.Health = r.Chance(1, 4)
	na := r.Range(1, maxAddr)
	for i := 0; i < na; i++ {
		fam := 0
		switch x := r.Intn(20); {
		case x < 10:
			fam = 0
		case x < 18:
			fam = 1
		default:
			fam = 2
		}
		p := addrPlan{Addr: c34AddrString(fam, i)}
		failBias := r.Intn(3) // 0: mostly ready, 2: mostly failing
		for k := r.Range(1, 3); k > 0; k-- {
			o := connOutcome{D: core.Pick(r, c34Times...)}
			switch x := r.Intn(20); {
			case x < 4+5*failBias:
				o.K = "fail"
				o.Backoff = core.Pick(r, int64(1), 1e6, c34Delay, 1e9, 2e9)
			case x < 16:
				o.K = "ready"
				if r.Chance(3, 5) {
					o.Life = core.Pick(r, int64(1), 1e6, c34Delay, 1e9, 3e9)
				}
				if s.Health && r.Chance(1, 2) {
					for n := r.Range(1, 3); n > 0; n-- {
						o.Health = append(o.Health, healthStep{S: core.Pick(r, 2, 2, 1, 3), D: core.Pick(r, int64(0), 1, 1e6, c34Delay)})
					}
				}
			case x < 18:
				o.K = "hang"
			default:
				o.K = "idle"
			}
			p.Outcomes = append(p.Outcomes, o)
		}
		s.Addrs = append(s.Addrs, p)
	}
	nu := r.Range(1, maxUpd)
	for i := 0; i < nu; i++ {
		u := c34Update{AtNs: core.Pick(r, c34Times...) * int64(r.Range(1, 3))}
		if i == 0 {
			u.AtNs = 0
		}
		switch x := r.Intn(20); {
		case x < 15 || i == 0:
			u.K = "addrs"
			if x == 0 && i > 0 {
				break // empty resolver result
			}
			u.Shuffle = r.Chance(1, 4)
			u.Flat = r.Chance(1, 4)
			if u.Flat {
				for n := r.Range(1, 5); n > 0; n-- {
					u.Endpoints = append(u.Endpoints, []int{r.Intn(na)})
				}
			} else {
				for n := r.Range(1, 4); n > 0; n-- {
					var ep []int
					for m := core.Pick(r, 1, 1, 2, 2, 3); m > 0; m-- {
						ep = append(ep, r.Intn(na))
					}
					u.Endpoints = append(u.Endpoints, ep)
				}
			}
		case x < 17:
			u.K = "error"
		default:
			u.K = "exitidle"
		}
		s.Updates = append(s.Updates, u)
	}
	for i := r.Intn(4); i > 0; i-- {
		s.Pickers = append(s.Pickers, c34Picker{StartNs: core.Pick(r, c34Times...), EveryNs: core.Pick(r, int64(1), 1e6, c34Delay/2, c34Delay, 1e9), N: r.Range(1, 8)})
	}
	s.TailNs = core.Pick(r, int64(1e9), 3e9, 10e9)
	return s
}

// ---- reference for the address pre-processing clause ----

// c34RefOrder is the statement's order: de-duplicate (first occurrence wins),
// then interleave the address families round-robin, starting with the family of
// the first address, keeping the relative order inside each family (RFC 8305
// section 4 with First Address Family Count 1, generalised to a third family
// of non-IP names in order of first appearance).
func c34RefOrder(in []string) []string {
	seen := map[string]bool{}
	var fams []int
	byFam := map[int][]string{}
	n := 0
	for _, a := range in {
		if seen[a] {
			continue
		}
		seen[a] = true
		f := c34Family(a)
		if _, ok := byFam[f]; !ok {
			fams = append(fams, f)
		}
		byFam[f] = append(byFam[f], a)
		n++
	}
	out := make([]string, 0, n)
	for len(out) < n {
		for _, f := range fams {
			if q := byFam[f]; len(q) > 0 {
				out = append(out, q[0])
				byFam[f] = q[1:]
			}
		}
	}
	return out
}

func permutations(n int) [][]int {
	var out [][]int
	p := make([]int, n)
	for i := range p {
		p[i] = i
	}
	var rec func(k int)
	rec = func(k int) {
		if k == n {
			out = append(out, append([]int(nil), p...))
			return
		}
		for i := k; i < n; i++ {
			p[k], p[i] = p[i], p[k]
			rec(k + 1)
			p[k], p[i] = p[i], p[k]
		}
	}
	rec(0)
	return out
}

// c34Candidates lists the connection orders the statement allows for one
// resolver result: without shuffling exactly one; with shuffling one per
// permutation of the endpoints (addresses inside an endpoint keep their order).
func c34Candidates(eps [][]string, shuffle bool) [][]string {
	perms := [][]int{nil}
	if shuffle {
		perms = permutations(len(eps))
	}
	seen := map[string]bool{}
	var out [][]string
	for _, p := range perms {
		var flat []string
		for i := range eps {
			j := i
			if p != nil {
				j = p[i]
			}
			flat = append(flat, eps[j]...)
		}
		o := c34RefOrder(flat)
		k := strings.Join(o, " ")
		if !seen[k] {
			seen[k] = true
			out = append(out, o)
		}
	}
	return out
}

// ---- oracle state ----

type c34SC struct {
	connPass    int  // pass in which Connect was last called
	tfPass      int  // pass during which the subchannel was (or went) TRANSIENT_FAILURE
	busyPass    int  // pass during which it was seen CONNECTING or TRANSIENT_FAILURE
	tfAfterConn bool // TF delivered after the Connect of connPass
	rawReady    bool
	healthReady bool
}

type c34Pass struct {
	num      int
	listGen  int // resolver result the candidate orders belong to
	cands    [][]string
	pos      []int
	active   bool
	lastConn int64 // time of the last first-pass Connect
}

type c34H struct {
	e       *core.Env
	s       *c34Scenario
	cc      *fakeCC
	env     *scEnv
	pass    *c34Pass
	npass   int
	list    [][]string // candidate orders of the resolver result in force (narrowed by what was observed)
	listGen int
	addrSet map[string]bool
	last    connectivity.State // last reported state
	hasLast bool
	sticky  bool
	exempt  int  // >0: inside ResolverError / empty update / health delivery (TF reports there are not pass ends)
	closing bool // Close called: checks off
	// delivering: the subchannel whose state listener is being called
	delivering  *fakeSC
	stickySince uint64
	fullOrd     []string
}

func (h *c34H) info(sc *fakeSC) *c34SC {
	a := auto(sc)
	if a.Check == nil {
		a.Check = &c34SC{connPass: -1, tfPass: -1, busyPass: -1}
	}
	return a.Check.(*c34SC)
}

func (h *c34H) liveSC(addr string) *fakeSC {
	var found *fakeSC
	for _, sc := range h.cc.Subs {
		if !sc.ShutdownCalled && sc.Addr() == addr {
			found = sc
		}
	}
	return found
}

func (h *c34H) okToPick(sc *fakeSC) bool {
	i := h.info(sc)
	return i.rawReady && (!h.s.Health || i.healthReady)
}

// startPass begins a new pass over the address list in force.
func (h *c34H) startPass(why string) {
	h.npass++
	p := &c34Pass{num: h.npass, listGen: h.listGen, cands: h.list, active: len(h.list) > 0, lastConn: -1 << 62}
	p.pos = make([]int, len(p.cands))
	for i := range p.pos {
		p.pos[i] = -1
	}
	h.pass = p
	h.fullOrd = nil
	for _, sc := range h.cc.Subs {
		if sc.ShutdownCalled {
			continue
		}
		i := h.info(sc)
		switch sc.Delivered {
		case connectivity.TransientFailure:
			i.tfPass, i.busyPass = p.num, p.num
		case connectivity.Connecting:
			i.busyPass = p.num
		}
	}
	h.e.Logf("oracle: pass %d starts (%s), %d candidate order(s)", p.num, why, len(p.cands))
	h.e.Probe("pass_started_" + why)
}

func (h *c34H) failedInPass(p *c34Pass, addr string) bool {
	sc := h.liveSC(addr)
	return sc != nil && h.info(sc).tfPass == p.num
}

// onConnect judges a Connect() call against the order of the current pass.
func (h *c34H) onConnect(sc *fakeSC) {
	p := h.pass
	if h.closing || p == nil || !p.active {
		if p != nil && !p.active {
			h.e.Probe("reconnect_after_pass")
		}
		return
	}
	e := h.e
	now := e.SimNs()
	addr := sc.Addr()
	var keepC [][]string
	var keepP []int
	badOrder, badSkip, badPace := "", "", ""
	for ci, cand := range p.cands {
		j := -1
		for k, a := range cand {
			if a == addr {
				j = k
			}
		}
		if j < 0 || j <= p.pos[ci] {
			badOrder = fmt.Sprintf("order [%s], previous attempt at position %d", strings.Join(cand, " "), p.pos[ci])
			continue
		}
		skipped := ""
		for i := 0; i < j; i++ {
			s := h.liveSC(cand[i])
			if s == nil {
				skipped = cand[i] + " (no subchannel)"
				break
			}
			in := h.info(s)
			if in.connPass != p.num && in.tfPass != p.num && in.busyPass != p.num {
				skipped = cand[i] + " (idle, never connected in this pass)"
				break
			}
		}
		if skipped != "" {
			badSkip = fmt.Sprintf("order [%s]: %s comes first and was passed over", strings.Join(cand, " "), skipped)
			continue
		}
		if p.pos[ci] >= 0 {
			between := true
			for i := p.pos[ci] + 1; i < j; i++ {
				if !h.failedInPass(p, cand[i]) {
					between = false
				}
			}
			if between && !h.failedInPass(p, cand[p.pos[ci]]) && now-p.lastConn < c34Delay {
				badPace = fmt.Sprintf("previous attempt (%s) started %d ns ago and has not failed", cand[p.pos[ci]], now-p.lastConn)
				continue
			}
		}
		keepC = append(keepC, cand)
		keepP = append(keepP, j)
	}
	if len(keepC) == 0 {
		switch {
		case badPace != "":
			e.Violate("attempt_pacing", "pass %d: Connect(%s) at t=%d: %s (connection attempt delay is 250 ms)", p.num, addr, now, badPace)
		case badSkip != "":
			e.Violate("connect_skipped_address", "pass %d: Connect(%s): %s", p.num, addr, badSkip)
		default:
			e.Violate("connect_order", "pass %d: Connect(%s) is out of order or repeated: %s", p.num, addr, badOrder)
		}
		p.active = false
		return
	}
	if len(keepC) < len(p.cands) {
		e.Probe("shuffle_order_narrowed")
	}
	p.cands, p.pos, p.lastConn = keepC, keepP, now
	if p.listGen == h.listGen {
		h.list = keepC // the shuffle is decided once per resolver result
	}
	in := h.info(sc)
	in.connPass, in.tfAfterConn = p.num, false
	h.fullOrd = append(h.fullOrd, addr)
	if len(h.fullOrd) > 1 {
		e.Probe("second_attempt_in_pass")
	}
}

// allFailed: every address of the list has a subchannel that failed in this pass.
func (h *c34H) allFailed(p *c34Pass) (bool, string) {
	for _, a := range sortedKeys(h.addrSet) {
		if !h.failedInPass(p, a) {
			return false, a
		}
	}
	return true, ""
}

// mustHaveReportedTF: the conservative trigger of the liveness half of the
// sticky-TF clause (see the level note): every address was connected in this
// pass and failed afterwards, or has been in TRANSIENT_FAILURE all along.
func (h *c34H) mustHaveReportedTF(p *c34Pass) bool {
	for _, a := range sortedKeys(h.addrSet) {
		sc := h.liveSC(a)
		if sc == nil {
			return false
		}
		in := h.info(sc)
		switch {
		case in.connPass == p.num && in.tfAfterConn:
		case in.connPass != p.num && in.tfPass == p.num && sc.Delivered == connectivity.TransientFailure:
		default:
			return false
		}
	}
	return true
}

// sweep runs at the end of every serialised call into the policy.
func (h *c34H) sweep() {
	for _, sc := range h.cc.Subs {
		if sc.ShutdownCalled || sc.Delivered != connectivity.Ready {
			in := h.info(sc)
			in.rawReady, in.healthReady = false, false
		}
	}
	// while READY is what the channel was last told, the selected subchannel
	// is the only one alive (a straggling timer must not open new ones)
	if u := h.cc.Latest(); u != nil && u.State.ConnectivityState == connectivity.Ready && !h.closing {
		if res, err := u.State.Picker.Pick(balancer.PickInfo{}); err == nil {
			if sel := asFakeSC(res.SubConn); sel != nil && !sel.ShutdownCalled {
				h.othersShutDown(sel, "while READY")
			}
		}
	}
}

func (h *c34H) othersShutDown(sel *fakeSC, when string) {
	for _, o := range h.cc.Subs {
		if o != sel && !o.ShutdownCalled {
			h.e.Violate("others_not_shutdown_on_ready", "%s: sc%d (%s) is READY and selected but sc%d (%s) has not been shut down", when, sel.ID, sel.Addr(), o.ID, o.Addr())
			return
		}
	}
}

func (h *c34H) onUpdateState(u *ccUpdate) {
	if h.closing {
		return
	}
	e := h.e
	st := u.State.ConnectivityState
	if u.State.Picker == nil {
		e.Violate("nil_picker", "UpdateState(%v) with a nil picker", st)
		return
	}
	switch st {
	case connectivity.Ready:
		res, err := u.State.Picker.Pick(balancer.PickInfo{})
		sc := asFakeSC(res.SubConn)
		switch {
		case err != nil || sc == nil:
			e.Violate("ready_without_ready_subconn", "READY reported but the picker returns (%v, %v)", res.SubConn, err)
		case sc.ShutdownCalled || !h.okToPick(sc):
			e.Violate("ready_without_ready_subconn", "READY reported with sc%d (%s) whose latest state is %v (shut down: %v, health mode: %v, health %v)", sc.ID, sc.Addr(), sc.Delivered, sc.ShutdownCalled, h.s.Health, sc.HealthDelivered)
		default:
			h.othersShutDown(sc, "READY reported")
			e.Probe("ready_reported")
		}
		if h.pass != nil {
			h.pass.active = false
		}
	case connectivity.Connecting:
		if h.sticky {
			if d := h.delivering; d != nil && d.CreatedSeq > h.stickySince {
				// kept apart from the other ways of leaving sticky TF: see known_findings.json
				e.Violate("sticky_tf_new_subchannel", "CONNECTING reported after every address had failed and before any subchannel became READY: triggered by CONNECTING of sc%d (%s), a subchannel created for a resolver update that arrived during TRANSIENT_FAILURE", d.ID, d.Addr())
			} else {
				e.Violate("sticky_tf", "CONNECTING reported after every address had failed and before any subchannel became READY")
			}
			h.sticky = false
		}
		if h.hasLast && h.last == connectivity.Idle {
			h.startPass("exit_idle")
		}
	case connectivity.Idle:
		if h.sticky {
			e.Violate("sticky_tf", "IDLE reported after every address had failed and before any subchannel became READY")
			h.sticky = false
		}
		if h.pass != nil {
			h.pass.active = false
		}
		e.Probe("idle_reported")
	case connectivity.TransientFailure:
		if p := h.pass; p != nil && p.active && h.exempt == 0 {
			if ok, a := h.allFailed(p); !ok {
				e.Violate("tf_before_all_failed", "pass %d: TRANSIENT_FAILURE reported although %s has not failed in this pass", p.num, a)
			} else {
				e.Probe("tf_after_all_failed")
				if len(h.addrSet) > 1 {
					e.Probe("tf_after_all_failed_multi")
				}
				// rider: a pass in which every address was attempted afresh shows the whole pre-processed order
				if len(h.fullOrd) == len(h.addrSet) {
					h.riderFullOrder(p)
				}
			}
			p.active = false
			if !h.sticky {
				h.stickySince = e.Seq
			}
			h.sticky = true
		}
	}
	h.last, h.hasLast = st, true
}

// riderFullOrder checks the pure pre-processing clause on a completely
// observed order: a permutation of the de-duplicated input that keeps the
// relative order inside each family (of the flattened, possibly shuffled, list).
func (h *c34H) riderFullOrder(p *c34Pass) {
	got := strings.Join(h.fullOrd, " ")
	for _, c := range p.cands {
		if strings.Join(c, " ") == got {
			h.e.Probe("full_order_observed")
			return
		}
	}
	h.e.Violate("preprocess_order", "complete connection order [%s] is not dedup+interleave of the resolver's list", got)
}

func (h *c34H) before(sc *fakeSC, kind string, s connectivity.State) {
	if h.closing {
		return
	}
	in := h.info(sc)
	h.delivering = sc
	if kind == "health" {
		h.exempt++
		if s == connectivity.Ready {
			in.healthReady = true
		}
		h.e.Probe("health_update")
		return
	}
	pn := -2
	if h.pass != nil {
		pn = h.pass.num
	}
	switch s {
	case connectivity.Connecting:
		in.busyPass = pn
	case connectivity.TransientFailure:
		in.tfPass, in.busyPass = pn, pn
		if in.connPass == pn {
			in.tfAfterConn = true
		}
	case connectivity.Ready:
		if !sc.ShutdownCalled {
			in.rawReady = true
			if h.sticky {
				h.e.Probe("sticky_tf_ended_by_ready")
			}
			h.sticky = false
			if h.pass != nil {
				h.pass.active = false
			}
		} else {
			h.e.Probe("ready_after_shutdown")
		}
	case connectivity.Idle:
		if sc.Delivered == connectivity.Connecting && !sc.ShutdownCalled {
			// grpc-go#7862: a connection that was established and lost before
			// READY was reported counts as "became READY" for stickiness.
			h.sticky = false
		}
	}
	if sc.ShutdownCalled && s != connectivity.Shutdown {
		h.e.Probe("update_after_shutdown_call")
	}
}

func (h *c34H) after(sc *fakeSC, kind string, s connectivity.State) {
	h.delivering = nil
	if h.closing {
		return
	}
	if kind == "health" {
		h.exempt--
		if s != connectivity.Ready {
			h.info(sc).healthReady = false
		}
		h.sweep()
		return
	}
	switch s {
	case connectivity.Ready:
		if !sc.ShutdownCalled {
			h.othersShutDown(sc, "READY delivered")
		}
	case connectivity.TransientFailure:
		if p := h.pass; p != nil && p.active && h.mustHaveReportedTF(p) {
			h.e.Violate("tf_not_reported", "pass %d: every address has failed but TRANSIENT_FAILURE was not reported (last reported: %v)", p.num, h.last)
			p.active = false
		}
	}
	h.sweep()
}

func (h *c34H) resolverState(u *c34Update) (resolver.State, [][]string) {
	var eps [][]string
	var st resolver.State
	for _, ep := range u.Endpoints {
		var names []string
		var re resolver.Endpoint
		for _, i := range ep {
			names = append(names, h.s.Addrs[i].Addr)
			re.Addresses = append(re.Addresses, resolver.Address{Addr: h.s.Addrs[i].Addr})
		}
		eps = append(eps, names)
		if u.Flat {
			st.Addresses = append(st.Addresses, re.Addresses...)
		} else {
			st.Endpoints = append(st.Endpoints, re)
		}
	}
	if h.s.Health {
		st = pickfirst.EnableHealthListener(st)
	}
	return st, eps
}

func runC34(e *core.Env, s *c34Scenario) {
	cc := newFakeCC(e, "cc")
	env := newSCEnv(e, cc, s.Addrs)
	h := &c34H{e: e, s: s, cc: cc, env: env, addrSet: map[string]bool{}}
	env.Before, env.After, env.OnConnect = h.before, h.after, h.onConnect
	cc.OnUpdateState = h.onUpdateState
	pf := balancer.Get(pickfirst.Name).Build(cc, balancer.BuildOptions{})
	cfgShuffle, cfgPlain := pfCfgShuffle, pfCfgPlain

	done := false
	// picker users: RPCs picking on the latest published picker
	for pi, pk := range s.Pickers {
		env.WG.Add(1)
		go func() {
			defer env.WG.Done()
			time.Sleep(time.Duration(pk.StartNs))
			for k := 0; k < pk.N && !done; k++ {
				if u := cc.Latest(); u != nil && u.State.Picker != nil {
					res, err := u.State.Picker.Pick(balancer.PickInfo{})
					if sc := asFakeSC(res.SubConn); sc != nil && err == nil && !h.closing {
						e.Logf("picker%d got sc%d", pi, sc.ID)
						e.Probe("pick_returned_subconn")
						if sc.ShutdownCalled || !h.okToPick(sc) {
							e.Violate("pick_returned_non_ready_subconn", "pick on the latest picker (update #%d, %v) returned sc%d (%s) whose latest state is %v (shut down: %v)", u.Idx, u.State.ConnectivityState, sc.ID, sc.Addr(), sc.Delivered, sc.ShutdownCalled)
						}
					} else if u.State.ConnectivityState == connectivity.Idle {
						e.Probe("pick_on_idle_picker")
					}
				}
				time.Sleep(time.Duration(pk.EveryNs))
			}
		}()
	}

	// the timeline: resolver updates, resolver errors, ExitIdle
	for ui := range s.Updates {
		u := &s.Updates[ui]
		time.Sleep(time.Duration(u.AtNs))
		// No goroutine may be half-way through the policy when the address list
		// changes (the oracle could not tell which list an action belongs to).
		synctest.Wait()
		switch u.K {
		case "addrs":
			st, eps := h.resolverState(u)
			cfg := cfgPlain
			if u.Shuffle {
				cfg = cfgShuffle
			}
			cc.Into(func() {
				e.Logf("resolver update %d: %v shuffle=%v flat=%v", ui, eps, u.Shuffle, u.Flat)
				if len(eps) == 0 {
					h.exempt++
					e.Probe("empty_address_list")
				} else {
					shuffleUnits := eps
					if u.Flat {
						shuffleUnits = nil
						for _, ep := range eps {
							for _, a := range ep {
								shuffleUnits = append(shuffleUnits, []string{a})
							}
						}
					}
					h.list = c34Candidates(shuffleUnits, u.Shuffle)
					h.listGen++
					h.addrSet = map[string]bool{}
					for _, a := range h.list[0] {
						h.addrSet[a] = true
					}
					keep := false
					for _, sc := range cc.Subs {
						if !sc.ShutdownCalled && sc.Delivered == connectivity.Ready && h.addrSet[sc.Addr()] {
							keep = true
						}
					}
					switch {
					case keep:
						e.Probe("update_keeps_ready_subconn")
					case h.hasLast && h.last == connectivity.Idle:
						e.Probe("update_while_idle")
					default:
						if h.sticky {
							e.Probe("update_during_sticky_tf")
						}
						h.startPass("resolver_update")
					}
					if len(h.list[0]) < func() int {
						n := 0
						for _, ep := range eps {
							n += len(ep)
						}
						return n
					}() {
						e.Probe("duplicates_in_list")
					}
					fams := map[int]bool{}
					for _, a := range h.list[0] {
						fams[c34Family(a)] = true
					}
					if len(fams) > 1 {
						e.Probe("mixed_families")
					}
				}
				pf.UpdateClientConnState(balancer.ClientConnState{ResolverState: st, BalancerConfig: cfg})
				if len(eps) == 0 {
					h.exempt--
					h.list, h.addrSet = nil, map[string]bool{}
					if h.pass != nil {
						h.pass.active = false
					}
					h.sticky = false
				}
				h.sweep()
			})
		case "error":
			cc.Into(func() {
				e.Logf("resolver error")
				h.exempt++
				pf.ResolverError(errors.New("simulated resolver error"))
				h.exempt--
				h.sweep()
			})
		case "exitidle":
			cc.Into(func() {
				e.Logf("ExitIdle")
				pf.ExitIdle()
				h.sweep()
			})
		}
	}
	time.Sleep(time.Duration(s.TailNs))
	synctest.Wait()
	if h.sticky {
		e.Probe("ended_in_sticky_tf")
	}
	cc.Into(func() {
		e.Logf("close")
		h.closing = true
		done = true
		env.Stopped = true
		pf.Close()
		cc.Closed = true
	})
	env.WG.Wait()
	synctest.Wait()
}

// The pick_first configs are parsed once, outside any bubble: encoding/json
// keeps its per-type cache in a process-global sync.Map whose hash seed is
// drawn at process start, so the number of atomic loads (= scheduling points)
// of a lookup differs from process to process.
var pfCfgShuffle, pfCfgPlain serviceconfig.LoadBalancingConfig

func init() {
	p := balancer.Get(pickfirst.Name).(balancer.ConfigParser)
	var err error
	if pfCfgShuffle, err = p.ParseConfig([]byte(`{"shuffleAddressList": true}`)); err != nil {
		panic(err)
	}
	if pfCfgPlain, err = p.ParseConfig([]byte(`{}`)); err != nil {
		panic(err)
	}
	core.Register("C34", genC34, runC34)
}
