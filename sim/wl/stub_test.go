package wl

// Scripted stub child policies. balancer.Register is global and not
// goroutine-safe, so the stub builders are registered once, in init(), under
// fixed names; what a built child does is decided by the per-run state
// (activeStubs), never by new registrations.

import (
	"encoding/json"
	"fmt"
	"sync"
	"time"

	"google.golang.org/grpc/balancer"
	"google.golang.org/grpc/connectivity"
	"google.golang.org/grpc/internal/zzverif/core"
	"google.golang.org/grpc/resolver"
	"google.golang.org/grpc/serviceconfig"
)

const nStubBuilders = 4

func stubName(i int) string { return fmt.Sprintf("zzverif_stub_%d", i) }

type stubBuilder struct{ idx int }

func (b stubBuilder) Name() string { return stubName(b.idx) }
func (b stubBuilder) Build(cc balancer.ClientConn, opts balancer.BuildOptions) balancer.Balancer {
	return activeStubs.build(b.idx, cc)
}

type stubLBConfig struct {
	serviceconfig.LoadBalancingConfig
	Raw string
}

func (b stubBuilder) ParseConfig(js json.RawMessage) (serviceconfig.LoadBalancingConfig, error) {
	return &stubLBConfig{Raw: string(js)}, nil
}

// Registered during package variable initialisation, i.e. before every init()
// of this package (some of which parse configs that name the stubs).
var _ = func() bool {
	for i := 0; i < nStubBuilders; i++ {
		balancer.Register(stubBuilder{idx: i})
	}
	return true
}()

// activeStubs is the registry of the run in progress (one run at a time per
// process; set at the start of a run function and cleared at its end).
var activeStubs *stubRun

// childAct is one scripted action of a stub child.
type childAct struct {
	K string `json:"k"`           // state | newsc | shutsc | connect | resolvenow | sleep
	S int    `json:"s,omitempty"` // state: connectivity.State (0 IDLE 1 CONNECTING 2 READY 3 TF); shutsc/connect: index
	N int64  `json:"n,omitempty"` // sleep: nanoseconds
}

// childScript is what the k-th child built in a run does.
type childScript struct {
	OnBuild []childAct `json:"on_build,omitempty"` // inline in Build
	OnCCS   []childAct `json:"on_ccs,omitempty"`   // inline in every UpdateClientConnState
	OnErr   []childAct `json:"on_err,omitempty"`   // inline in ResolverError
	OnExit  []childAct `json:"on_exit,omitempty"`  // inline in ExitIdle
	OnClose []childAct `json:"on_close,omitempty"` // inline in Close
	Own     []childAct `json:"own,omitempty"`      // on the child's own goroutine, started by Build; keeps going after Close
}

type stubRun struct {
	E        *core.Env
	Scripts  []childScript
	Default  childScript  // script of children built beyond len(Scripts)
	Children []*stubChild // in build order
	WG       sync.WaitGroup

	// hooks (optional)
	OnBuild      func(c *stubChild)
	OnUpdateCall func(c *stubChild, p *stubPicker) // before cc.UpdateState
	OnUpdateRet  func(c *stubChild, p *stubPicker)
	OnCallIn     func(c *stubChild, what string) // a call from the parent into the child (after logging)
	OnPick       func(p *stubPicker)
}

func (r *stubRun) build(bidx int, cc balancer.ClientConn) balancer.Balancer {
	c := &stubChild{Run: r, ID: len(r.Children), Builder: bidx, CC: cc}
	c.Script = r.Default
	if c.ID < len(r.Scripts) {
		c.Script = r.Scripts[c.ID]
	}
	r.Children = append(r.Children, c)
	r.E.Logf("build child%d (%s)", c.ID, stubName(bidx))
	c.BuiltSeq = r.E.Seq
	if r.OnBuild != nil {
		r.OnBuild(c)
	}
	c.exec(c.Script.OnBuild, true)
	if len(c.Script.Own) > 0 {
		r.WG.Add(1)
		go func() {
			defer r.WG.Done()
			c.exec(c.Script.Own, false)
		}()
	}
	return c
}

// stubPicker is the picker of one UpdateState call of a stub child; it
// identifies the child and the update.
type stubPicker struct {
	Child *stubChild
	Tag   int
	State connectivity.State
	Picks int
	// CallSeq/RetSeq bracket the UpdateState call that published it.
	CallSeq, RetSeq uint64
}

func (p *stubPicker) Pick(balancer.PickInfo) (balancer.PickResult, error) {
	p.Picks++
	if p.Child.Run.OnPick != nil {
		p.Child.Run.OnPick(p)
	}
	if p.State == connectivity.Ready {
		return balancer.PickResult{}, nil
	}
	if p.State == connectivity.TransientFailure {
		return balancer.PickResult{}, fmt.Errorf("stub child%d in TRANSIENT_FAILURE", p.Child.ID)
	}
	return balancer.PickResult{}, balancer.ErrNoSubConnAvailable
}

type stubSCInfo struct {
	Owner     *stubChild
	ChildShut bool // the child itself asked for Shutdown
	Returned  bool // NewSubConn returned it to the child without error
}

type stubChild struct {
	Run     *stubRun
	ID      int
	Builder int
	CC      balancer.ClientConn
	Script  childScript

	// mu is taken and released at the entry of every call the parent makes
	// into the child, as real policies do with their own mutex: it is a
	// scheduling point exactly where real children have one.
	mu   sync.Mutex
	upMu sync.Mutex

	BuiltSeq   uint64
	Updates    []*stubPicker
	Subs       []*fakeSC // SubConns NewSubConn returned successfully
	NewSCs     int
	CloseCalls int
	CloseSeq   uint64 // event seq at entry of the first Close
	CCSCalls   int
	ErrCalls   int
	ExitCalls  int
	SCStates   int
	LastCCS    balancer.ClientConnState
	User       any // per-check data
}

func (c *stubChild) Closed() bool { return c.CloseCalls > 0 }

func (c *stubChild) enter() {
	c.mu.Lock()
	c.mu.Unlock()
}

func (c *stubChild) exec(acts []childAct, inline bool) {
	for _, a := range acts {
		switch a.K {
		case "state":
			c.update(connectivity.State(a.S))
		case "newsc":
			c.newSubConn()
		case "shutsc":
			if len(c.Subs) > 0 {
				sc := c.Subs[a.S%len(c.Subs)]
				sc.User.(*stubSCInfo).ChildShut = true
				c.Run.E.Logf("child%d shuts sc%d", c.ID, sc.ID)
				sc.Shutdown()
			}
		case "connect":
			if len(c.Subs) > 0 {
				c.Subs[a.S%len(c.Subs)].Connect()
			}
		case "resolvenow":
			c.CC.ResolveNow(resolver.ResolveNowOptions{})
		case "sleep":
			if !inline && a.N > 0 {
				time.Sleep(time.Duration(a.N))
			}
		}
	}
}

// update publishes a new state. A child serialises its own UpdateState calls
// (real policies call out under their own mutex), so its updates reach the
// parent in tag order even when the parent calls into the child while the
// child's own goroutine is reporting.
func (c *stubChild) update(s connectivity.State) {
	c.upMu.Lock()
	defer c.upMu.Unlock()
	p := &stubPicker{Child: c, Tag: len(c.Updates), State: s}
	c.Updates = append(c.Updates, p)
	c.Run.E.Logf("child%d update#%d %v call", c.ID, p.Tag, s)
	p.CallSeq = c.Run.E.Seq
	if c.Run.OnUpdateCall != nil {
		c.Run.OnUpdateCall(c, p)
	}
	c.CC.UpdateState(balancer.State{ConnectivityState: s, Picker: p})
	c.Run.E.Logf("child%d update#%d ret", c.ID, p.Tag)
	p.RetSeq = c.Run.E.Seq
	if c.Run.OnUpdateRet != nil {
		c.Run.OnUpdateRet(c, p)
	}
}

// stubSCAddr encodes the owner into the address so that the recording
// ClientConn can attribute a SubConn even when NewSubConn fails afterwards.
func stubSCAddr(child, k int) string { return fmt.Sprintf("child%d-sc%d", child, k) }

func (c *stubChild) newSubConn() {
	k := c.NewSCs
	c.NewSCs++
	c.Run.E.Logf("child%d newsc#%d call", c.ID, k)
	sc, err := c.CC.NewSubConn([]resolver.Address{{Addr: stubSCAddr(c.ID, k)}}, balancer.NewSubConnOptions{
		StateListener: func(s balancer.SubConnState) {
			c.enter()
			c.SCStates++
			c.Run.E.Logf("child%d scstate %v", c.ID, s.ConnectivityState)
			if c.Run.OnCallIn != nil {
				c.Run.OnCallIn(c, "StateListener")
			}
		},
	})
	c.Run.E.Logf("child%d newsc#%d ret err=%v", c.ID, k, err != nil)
	if err == nil {
		if f := asFakeSC(sc); f != nil {
			c.Subs = append(c.Subs, f)
			if info, ok := f.User.(*stubSCInfo); ok {
				info.Returned = true
			}
		}
	}
}

func (c *stubChild) UpdateClientConnState(s balancer.ClientConnState) error {
	c.enter()
	c.CCSCalls++
	c.LastCCS = s
	c.Run.E.Logf("child%d.UpdateClientConnState", c.ID)
	if c.Run.OnCallIn != nil {
		c.Run.OnCallIn(c, "UpdateClientConnState")
	}
	c.exec(c.Script.OnCCS, true)
	return nil
}

func (c *stubChild) ResolverError(error) {
	c.enter()
	c.ErrCalls++
	c.Run.E.Logf("child%d.ResolverError", c.ID)
	if c.Run.OnCallIn != nil {
		c.Run.OnCallIn(c, "ResolverError")
	}
	c.exec(c.Script.OnErr, true)
}

func (c *stubChild) UpdateSubConnState(balancer.SubConn, balancer.SubConnState) {
	c.enter()
	c.Run.E.Logf("child%d.UpdateSubConnState", c.ID)
	if c.Run.OnCallIn != nil {
		c.Run.OnCallIn(c, "UpdateSubConnState")
	}
}

func (c *stubChild) ExitIdle() {
	c.enter()
	c.ExitCalls++
	c.Run.E.Logf("child%d.ExitIdle", c.ID)
	if c.Run.OnCallIn != nil {
		c.Run.OnCallIn(c, "ExitIdle")
	}
	c.exec(c.Script.OnExit, true)
}

func (c *stubChild) Close() {
	c.enter()
	c.Run.E.Logf("child%d.Close", c.ID)
	if c.Run.OnCallIn != nil {
		c.Run.OnCallIn(c, "Close")
	}
	c.CloseCalls++
	if c.CloseCalls == 1 {
		c.CloseSeq = c.Run.E.Seq
	}
	c.exec(c.Script.OnClose, true)
}
