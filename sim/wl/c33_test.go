package wl

// C33: switching LB policies is graceful and isolates the old policy.
//
// Real: internal/balancer/gracefulswitch.Balancer. Stubbed: the child
// policies (scripted stubs that update state, create/shut SubConns and call
// ResolveNow inline and from their own goroutines, and keep doing so after
// they were closed), the parent ClientConn (recording fake), the channel
// (one harness goroutine issuing SwitchTo / UpdateClientConnState /
// ResolverError / ExitIdle / SubConn state callbacks / Close in sequence).

import (
	"encoding/json"
	"errors"
	"fmt"
	"testing/synctest"
	"time"

	"google.golang.org/grpc/balancer"
	"google.golang.org/grpc/connectivity"
	"google.golang.org/grpc/internal/balancer/gracefulswitch"
	"google.golang.org/grpc/internal/zzverif/core"
	"google.golang.org/grpc/resolver"
	"google.golang.org/grpc/serviceconfig"
)

type c33Op struct {
	K string `json:"k"`           // switch | cfg | ccs | reserr | exitidle | scstate | sleep | quiesce
	B int    `json:"b,omitempty"` // builder index
	S int    `json:"s,omitempty"` // scstate: connectivity state
	I int    `json:"i,omitempty"` // scstate: subconn index (mod number of subconns)
	N int64  `json:"n,omitempty"` // sleep ns
}

type c33Scenario struct {
	Sched    core.Sched    `json:"sched"`
	Children []childScript `json:"children"`
	Ops      []c33Op       `json:"ops"`
}

func (s *c33Scenario) SchedP() *core.Sched { return &s.Sched }
func (s *c33Scenario) Shape() string {
	sw, acts := 0, 0
	for _, o := range s.Ops {
		if o.K == "switch" || o.K == "cfg" {
			sw++
		}
	}
	for _, c := range s.Children {
		acts += len(c.Own) + len(c.OnBuild) + len(c.OnCCS)
	}
	return fmt.Sprintf("ops=%d switches=%d children=%d acts=%d", len(s.Ops), sw, len(s.Children), acts/4)
}

const c33MaxChildren = 12

func (s *c33Scenario) Validate() error {
	sw := 0
	if len(s.Ops) == 0 || s.Ops[0].K != "switch" {
		return errors.New("first op must be a switch")
	}
	for _, o := range s.Ops {
		if o.K == "switch" || o.K == "cfg" {
			sw++
		}
		if o.B < 0 || o.B >= nStubBuilders || o.S < 0 || o.S > 3 || o.I < 0 || o.N < 0 {
			return errors.New("bad op")
		}
	}
	if sw > c33MaxChildren {
		return errors.New("too many switches")
	}
	for _, c := range s.Children {
		for _, as := range [][]childAct{c.OnBuild, c.OnCCS, c.OnErr, c.OnExit, c.OnClose, c.Own} {
			for _, a := range as {
				if a.S < 0 || a.S > 3 || a.N < 0 {
					return errors.New("bad act")
				}
			}
		}
	}
	return nil
}

func c33State(r *core.Rand) int {
	switch x := r.Intn(20); {
	case x < 7:
		return int(connectivity.Ready)
	case x < 14:
		return int(connectivity.Connecting)
	case x < 17:
		return int(connectivity.TransientFailure)
	default:
		return int(connectivity.Idle)
	}
}

func c33Acts(r *core.Rand, n int, own bool, gaps []int64) []childAct {
	var out []childAct
	for i := 0; i < n; i++ {
		switch x := r.Intn(16); {
		case x < 8:
			out = append(out, childAct{K: "state", S: c33State(r)})
		case x < 10:
			out = append(out, childAct{K: "newsc"})
		case x < 11:
			out = append(out, childAct{K: "shutsc", S: r.Intn(3)})
		case x < 12:
			out = append(out, childAct{K: "resolvenow"})
		default:
			if own {
				out = append(out, childAct{K: "sleep", N: core.Pick(r, gaps...)})
			} else {
				out = append(out, childAct{K: "state", S: c33State(r)})
			}
		}
	}
	return out
}

func genC33(seed uint64, tier string) *c33Scenario {
	r := core.NewRand(seed)
	s := &c33Scenario{Sched: genSched(r, seed)}
	maxSw, maxOps, maxOwn := 5, 12, 7
	if tier == "thorough" {
		maxSw, maxOps, maxOwn = 9, 24, 10
	}
	gaps := []int64{0, 1, 1, 2, 3, 5, 10}
	if r.Chance(1, 4) {
		gaps = []int64{0, 0, 0, 1}
	}
	nOps := r.Range(2, maxOps)
	s.Ops = append(s.Ops, c33Op{K: "switch", B: r.Intn(nStubBuilders)})
	sw := 1
	for i := 1; i < nOps; i++ {
		x := r.Intn(20)
		switch {
		case x < 5 && sw < maxSw:
			s.Ops = append(s.Ops, c33Op{K: "switch", B: r.Intn(nStubBuilders)})
			sw++
		case x < 7 && sw < maxSw:
			s.Ops = append(s.Ops, c33Op{K: "cfg", B: r.Intn(nStubBuilders)})
			sw++
		case x < 9:
			s.Ops = append(s.Ops, c33Op{K: "ccs"})
		case x < 10:
			s.Ops = append(s.Ops, c33Op{K: "reserr"})
		case x < 11:
			s.Ops = append(s.Ops, c33Op{K: "exitidle"})
		case x < 14:
			s.Ops = append(s.Ops, c33Op{K: "scstate", S: r.Intn(4), I: r.Intn(8)})
		case x < 18:
			s.Ops = append(s.Ops, c33Op{K: "sleep", N: core.Pick(r, gaps...) + 1})
		default:
			s.Ops = append(s.Ops, c33Op{K: "quiesce"})
		}
	}
	for i := 0; i < sw; i++ {
		var cs childScript
		if r.Chance(3, 5) {
			cs.OnBuild = c33Acts(r, r.Range(1, 2), false, nil)
		}
		if r.Chance(1, 2) {
			cs.OnCCS = c33Acts(r, r.Range(1, 2), false, nil)
		}
		if r.Chance(1, 4) {
			cs.OnErr = c33Acts(r, 1, false, nil)
		}
		if r.Chance(1, 4) {
			cs.OnExit = c33Acts(r, 1, false, nil)
		}
		if r.Chance(1, 5) {
			cs.OnClose = c33Acts(r, r.Range(1, 2), false, nil)
		}
		if r.Chance(5, 6) {
			cs.Own = c33Acts(r, r.Range(1, maxOwn), true, gaps)
		}
		s.Children = append(s.Children, cs)
	}
	return s
}

// ---- reference model of the statement ----

type gsLast struct {
	St  int8
	Tag int16 // -1: the policy has not reported anything yet
}

type gsModel struct {
	Cur, Pend int8 // child ids, -1 = none
	Closed    bool
	Last      [c33MaxChildren]gsLast
}

type gsOpData struct {
	Kind  int // 0 switch, 1 child update, 2 close
	Child int
	St    connectivity.State
	Tag   int
}

type gsFwd struct {
	Child int // -1 when the picker is not one of the stubs' (initial picker of a policy that never reported)
	Tag   int
	St    connectivity.State
}

func gsStep(m gsModel, op *linOp) (gsModel, []any, bool) {
	d := op.Data.(*gsOpData)
	switch d.Kind {
	case 0: // SwitchTo: the first policy is current at once, later ones wait as pending (replacing an older pending one)
		if m.Closed {
			return m, nil, true
		}
		m.Last[d.Child] = gsLast{St: int8(connectivity.Connecting), Tag: -1}
		if m.Cur < 0 {
			m.Cur = int8(d.Child)
		} else {
			m.Pend = int8(d.Child)
		}
		return m, nil, true
	case 2:
		m.Closed, m.Cur, m.Pend = true, -1, -1
		return m, nil, true
	case 3: // observation: the parent closed this policy / shut one of its SubConns: it must not be current or pending
		return m, nil, int8(d.Child) != m.Cur && int8(d.Child) != m.Pend
	}
	c := int8(d.Child)
	if c != m.Cur && c != m.Pend {
		return m, nil, true // closed or superseded policy: nothing reaches the channel
	}
	m.Last[c] = gsLast{St: int8(d.St), Tag: int16(d.Tag)}
	if c == m.Cur {
		if d.St != connectivity.Ready && m.Pend >= 0 {
			// the old policy left READY: the new one becomes current
			p := m.Pend
			m.Cur, m.Pend = p, -1
			return m, []any{gsFwd{Child: int(p), Tag: int(m.Last[p].Tag), St: connectivity.State(m.Last[p].St)}}, true
		}
		return m, []any{gsFwd{Child: d.Child, Tag: d.Tag, St: d.St}}, true
	}
	if d.St != connectivity.Connecting || connectivity.State(m.Last[m.Cur].St) != connectivity.Ready {
		m.Cur, m.Pend = c, -1
		return m, []any{gsFwd{Child: d.Child, Tag: d.Tag, St: d.St}}, true
	}
	return m, nil, true
}

// gsInert: an update (or a close/shutdown observation) of a policy that has
// been built but is neither current nor pending can never matter again: a
// superseded or replaced policy does not come back.
func gsInert(m gsModel, op *linOp) bool {
	d := op.Data.(*gsOpData)
	return (d.Kind == 1 || d.Kind == 3) && int8(d.Child) != m.Cur && int8(d.Child) != m.Pend
}

func gsMatch(em any, o *linObs) bool {
	w, g := em.(gsFwd), o.Data.(gsFwd)
	if w.Tag < 0 {
		// the policy never reported: its state is CONNECTING, the picker is the parent's own
		return g.Child < 0 && g.St == connectivity.Connecting
	}
	return w == g
}

type c33H struct {
	e      *core.Env
	cc     *fakeCC
	st     *stubRun
	ops    []*linOp
	obs    []*linObs
	curSw  *linOp // SwitchTo in progress, waiting for Build
	openUp map[*stubPicker]*linOp
	// direct (search-free) staleness bookkeeping
	maxFwdChild int
	closeRet    bool
	shutNotif   map[int]bool
	driverBusy  bool
	overlap     int
}

func (h *c33H) lin(ops []*linOp, accept func(gsModel) bool) linResult[gsModel] {
	spec := linSpec[gsModel]{Init: gsModel{Cur: -1, Pend: -1}, Step: gsStep, Match: gsMatch, Accept: accept, Inert: gsInert}
	return linCheck(spec, ops, h.obs, 200000)
}

func (h *c33H) describe(ops []*linOp, res linResult[gsModel]) string {
	s := fmt.Sprintf("matched %d/%d channel updates; operations ordered so far:", res.BestObs, len(h.obs))
	for _, i := range res.BestOrder {
		s += " " + ops[i].Desc
	}
	s += " | all operations:"
	for _, o := range ops {
		s += fmt.Sprintf(" %s[%d,%d]", o.Desc, o.Call, o.Ret)
	}
	s += " | channel saw:"
	for _, o := range h.obs {
		s += fmt.Sprintf(" %s@%d", o.Desc, o.Seq)
	}
	return s
}

// obligations lists what the statement requires of a quiescent state m:
// every policy that is neither current nor pending has been closed (once) and
// its SubConns are shut down.
func (h *c33H) obligations(m gsModel, report bool) bool {
	ok := true
	for _, c := range h.st.Children {
		live := int8(c.ID) == m.Cur || int8(c.ID) == m.Pend
		if !live && c.CloseCalls == 0 {
			ok = false
			if report {
				h.e.Violate("old_policy_not_closed", "child%d was superseded or the balancer was closed, but its Close was never called", c.ID)
			}
		}
	}
	for _, sc := range h.cc.Subs {
		info := sc.User.(*stubSCInfo)
		live := int8(info.Owner.ID) == m.Cur || int8(info.Owner.ID) == m.Pend
		if !live && !sc.ShutdownCalled {
			ok = false
			if report {
				h.e.Violate("subconn_leak", "sc%d created by child%d is still open although that policy is closed (returned to child: %v)", sc.ID, info.Owner.ID, info.Returned)
			}
		}
	}
	return ok
}

// check runs the reference model over the history so far (everything must be
// quiescent): (1) the updates that reached the channel must be explained by
// the graceful-switch rule in some order of the overlapping operations; (2) in
// such an order no policy may have been closed, nor one of its SubConns shut
// down by the parent, while it was current or pending; (3) in such an order
// the closed/superseded policies must by now be closed and their SubConns shut.
func (h *c33H) check(final bool) {
	e := h.e
	for _, o := range h.ops {
		if o.Ret == 0 {
			return
		}
	}
	res := h.lin(h.ops, nil)
	if res.Exhausted {
		e.Probe("lin_budget_exceeded")
		return
	}
	if !res.OK {
		e.Violate("forward_mismatch", "the updates that reached the channel are not explained by the graceful-switch rule in any order of the concurrent operations: %s", h.describe(h.ops, res))
		return
	}
	ops := append([]*linOp(nil), h.ops...)
	for _, c := range h.st.Children {
		if c.CloseCalls > 0 {
			ops = append(ops, &linOp{Call: c.CloseSeq, Ret: c.CloseSeq, Data: &gsOpData{Kind: 3, Child: c.ID}, Desc: fmt.Sprintf("closed(child%d)", c.ID)})
		}
	}
	res = h.lin(ops, nil)
	if res.Exhausted {
		e.Probe("lin_budget_exceeded")
		return
	}
	if !res.OK {
		e.Violate("live_policy_closed", "a policy was closed while it was still current or pending in every order that explains the channel's updates: %s", h.describe(ops, res))
		return
	}
	for _, sc := range h.cc.Subs {
		info := sc.User.(*stubSCInfo)
		if sc.ShutdownCalled && !info.ChildShut {
			ops = append(ops, &linOp{Call: sc.ShutdownSeq, Ret: sc.ShutdownSeq, Data: &gsOpData{Kind: 3, Child: info.Owner.ID}, Desc: fmt.Sprintf("shut(sc%d of child%d)", sc.ID, info.Owner.ID)})
		}
	}
	res = h.lin(ops, nil)
	if res.Exhausted {
		e.Probe("lin_budget_exceeded")
		return
	}
	if !res.OK {
		e.Violate("live_subconn_shutdown", "the parent shut down a SubConn of a policy that was still current or pending in every order that explains the channel's updates: %s", h.describe(ops, res))
		return
	}
	first := res
	res = h.lin(ops, func(m gsModel) bool { return h.obligations(m, false) })
	if res.Exhausted {
		e.Probe("lin_budget_exceeded")
		return
	}
	if !res.OK {
		h.obligations(first.Final, true)
		return
	}
	for _, sc := range h.cc.Subs {
		if info := sc.User.(*stubSCInfo); !info.Returned && final {
			e.Probe("newsc_raced_close")
		}
	}
	if final {
		// probes from the witness order
		mm := gsModel{Cur: -1, Pend: -1}
		for _, i := range res.Order {
			d := ops[i].Data.(*gsOpData)
			before := mm
			var outs []any
			mm, outs, _ = gsStep(mm, ops[i])
			switch {
			case d.Kind == 0 && before.Pend >= 0:
				e.Probe("pending_replaced")
			case d.Kind == 1 && int8(d.Child) == before.Pend && len(outs) == 0:
				e.Probe("graceful_hold")
			case d.Kind == 1 && int8(d.Child) == before.Pend && before.Cur >= 0 && mm.Cur == int8(d.Child):
				e.Probe("swap_by_pending_update")
			case d.Kind == 1 && int8(d.Child) == before.Cur && mm.Cur != before.Cur:
				e.Probe("swap_by_current_leaving_ready")
				if mm.Last[mm.Cur].Tag < 0 {
					e.Probe("swap_to_silent_policy")
				}
			case d.Kind == 1 && int8(d.Child) != before.Cur && int8(d.Child) != before.Pend:
				if before.Closed {
					e.Probe("stale_update_after_close")
				} else {
					e.Probe("stale_update_dropped")
				}
			}
		}
	}
}

func runC33(e *core.Env, s *c33Scenario) {
	cc := newFakeCC(e, "cc")
	st := &stubRun{E: e, Scripts: s.Children}
	h := &c33H{e: e, cc: cc, st: st, openUp: map[*stubPicker]*linOp{}, maxFwdChild: -1, shutNotif: map[int]bool{}}
	activeStubs = st
	defer func() { activeStubs = nil }()

	st.OnBuild = func(c *stubChild) {
		if c.ID >= c33MaxChildren {
			panic("harness: too many children")
		}
		if h.curSw != nil {
			h.curSw.Ret = c.BuiltSeq
			h.curSw.Data.(*gsOpData).Child = c.ID
			h.curSw.Desc = fmt.Sprintf("switch(child%d)", c.ID)
			h.ops = append(h.ops, h.curSw)
			h.curSw = nil
		} else {
			e.Violate("unexpected_build", "child%d built outside SwitchTo/UpdateClientConnState", c.ID)
		}
	}
	st.OnUpdateCall = func(c *stubChild, p *stubPicker) {
		op := &linOp{Call: p.CallSeq, Data: &gsOpData{Kind: 1, Child: c.ID, St: p.State, Tag: p.Tag}, Desc: fmt.Sprintf("child%d.update#%d(%v)", c.ID, p.Tag, p.State)}
		h.ops = append(h.ops, op)
		h.openUp[p] = op
		if h.driverBusy {
			h.overlap++
		}
	}
	st.OnUpdateRet = func(c *stubChild, p *stubPicker) {
		h.openUp[p].Ret = p.RetSeq
		delete(h.openUp, p)
	}
	st.OnCallIn = func(c *stubChild, what string) {
		if c.Closed() {
			if what == "Close" {
				e.Violate("closed_twice", "Close called again on child%d", c.ID)
			} else {
				e.Violate("call_into_closed_child", "%s called on child%d after its Close", what, c.ID)
			}
		}
	}
	cc.OnNewSubConn = func(sc *fakeSC) {
		var ci, k int
		fmt.Sscanf(sc.Addr(), "child%d-sc%d", &ci, &k)
		sc.User = &stubSCInfo{Owner: st.Children[ci]}
	}
	cc.OnUpdateState = func(u *ccUpdate) {
		f := gsFwd{Child: -1, Tag: -1, St: u.State.ConnectivityState}
		if p, ok := u.State.Picker.(*stubPicker); ok {
			f.Child, f.Tag = p.Child.ID, p.Tag
			if p.State != u.State.ConnectivityState {
				e.Violate("state_picker_mismatch", "channel got state %v with the picker child%d published with %v", u.State.ConnectivityState, p.Child.ID, p.State)
			}
			if p.Child.Closed() {
				e.Violate("stale_update_forwarded", "update #%d of child%d reached the channel after that policy was closed", p.Tag, p.Child.ID)
			} else if p.Child.ID < h.maxFwdChild {
				e.Violate("stale_update_forwarded", "update #%d of child%d reached the channel after child%d had already become current", p.Tag, p.Child.ID, h.maxFwdChild)
			}
			if p.Child.ID > h.maxFwdChild {
				h.maxFwdChild = p.Child.ID
			}
		} else if u.State.Picker == nil {
			e.Violate("nil_picker", "channel got a nil picker")
		}
		if h.closeRet {
			e.Violate("update_after_close", "an update reached the channel after Close returned")
		}
		h.obs = append(h.obs, &linObs{Seq: u.Seq, Data: f, Desc: fmt.Sprintf("child%d#%d(%v)", f.Child, f.Tag, f.St)})
	}

	gsb := gracefulswitch.NewBalancer(cc, balancer.BuildOptions{})
	rs := resolver.State{Endpoints: []resolver.Endpoint{{Addresses: []resolver.Address{{Addr: "10.0.0.1:1"}}}}}
	beginSwitch := func() {
		e.Logf("switch call")
		h.curSw = &linOp{Call: e.Seq, Data: &gsOpData{Kind: 0, Child: -1}}
	}
	for _, op := range s.Ops {
		h.driverBusy = true
		switch op.K {
		case "switch":
			beginSwitch()
			cc.Into(func() { gsb.SwitchTo(stubBuilder{idx: op.B}) })
			h.curSw = nil
		case "cfg":
			cfg := gsCfgs[op.B]
			beginSwitch()
			cc.Into(func() { gsb.UpdateClientConnState(balancer.ClientConnState{ResolverState: rs, BalancerConfig: cfg}) })
			if h.curSw != nil {
				e.Probe("cfg_same_policy_no_switch")
			}
			h.curSw = nil
		case "ccs":
			e.Logf("ccs")
			cc.Into(func() { gsb.UpdateClientConnState(balancer.ClientConnState{ResolverState: rs}) })
		case "reserr":
			e.Logf("reserr")
			cc.Into(func() { gsb.ResolverError(errors.New("resolver error")) })
		case "exitidle":
			e.Logf("exitidle")
			cc.Into(func() { gsb.ExitIdle() })
		case "scstate":
			if n := len(cc.Subs); n > 0 {
				sc := cc.Subs[op.I%n]
				if sc.ShutdownCalled {
					if !h.shutNotif[sc.ID] {
						h.shutNotif[sc.ID] = true
						cc.Into(func() { sc.Deliver(connectivity.Shutdown, nil) })
					}
				} else {
					cc.Into(func() { sc.Deliver(connectivity.State(op.S), nil) })
				}
			}
		case "sleep":
			h.driverBusy = false
			time.Sleep(time.Duration(op.N))
		case "quiesce":
			h.driverBusy = false
			synctest.Wait()
			h.check(false)
			e.Probe("midrun_quiescence_check")
		}
		h.driverBusy = false
	}
	e.Logf("close call")
	clo := &linOp{Call: e.Seq, Data: &gsOpData{Kind: 2}, Desc: "close"}
	h.ops = append(h.ops, clo)
	h.driverBusy = true
	cc.Into(func() { gsb.Close() })
	h.driverBusy = false
	e.Logf("close ret")
	clo.Ret = e.Seq
	h.closeRet = true
	st.WG.Wait() // stale children finish their scripts against the closed balancer
	synctest.Wait()
	if h.overlap > 0 {
		e.Probe("child_update_during_channel_call")
	}
	h.check(true)
}

// gsCfgs: parsed outside the bubble (see the note on pfCfgShuffle in c34_test.go).
var gsCfgs [nStubBuilders]serviceconfig.LoadBalancingConfig

func init() {
	for i := range gsCfgs {
		cfg, err := gracefulswitch.ParseConfig(json.RawMessage(fmt.Sprintf(`[{%q: {}}]`, stubName(i))))
		if err != nil {
			panic(err)
		}
		gsCfgs[i] = cfg
	}
	core.Register("C33", genC33, runC33)
}
