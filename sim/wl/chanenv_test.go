package wl

// scEnv plays the channel's subchannels for policies that own real SubConns
// (pick_first, round_robin ...): every fake SubConn gets the addrConn state
// machine
//
//	IDLE --Connect()--> CONNECTING --> READY --(connection lost)--> IDLE
//	                          |------> TRANSIENT_FAILURE --(backoff)--> IDLE
//	                          |------> IDLE   (transport created but lost before READY was reported, grpc-go#7862)
//	any --Shutdown()--> SHUTDOWN
//
// whose timing and outcomes come from the scenario (per address, per attempt).
// State changes are delivered to the policy's listener through (*fakeCC).Into,
// each from the goroutine of the attempt that produced it, so deliveries of
// different subchannels, happy-eyeballs timers of the policy and resolver
// updates that fall on the same virtual instant are ordered by the seeded
// scheduler. As with the real channel, an update produced before Shutdown() may
// still be delivered after it, Connect() on a subchannel that is not IDLE does
// nothing, and nothing is delivered after the SHUTDOWN notification.

import (
	"errors"
	"sync"
	"time"

	"google.golang.org/grpc/connectivity"
	"google.golang.org/grpc/internal/zzverif/core"
)

type healthStep struct {
	S int   `json:"s"` // connectivity state reported by the health producer
	D int64 `json:"d"` // delay before it, ns
}

type connOutcome struct {
	K       string       `json:"k"`                 // ready | fail | hang | idle
	D       int64        `json:"d"`                 // time spent CONNECTING, ns
	Life    int64        `json:"life,omitempty"`    // ready: lifetime of the connection, 0 = for ever
	Backoff int64        `json:"backoff,omitempty"` // fail: time in TRANSIENT_FAILURE before IDLE
	Health  []healthStep `json:"health,omitempty"`  // ready: what a registered health listener is told (default: READY at once)
}

type addrPlan struct {
	Addr     string        `json:"addr"`
	Outcomes []connOutcome `json:"outcomes"` // k-th connection attempt to this address uses Outcomes[k mod len]
}

type scAuto struct {
	True     connectivity.State // state of the subchannel itself (ahead of what was delivered)
	Outcome  *connOutcome       // of the current / last attempt
	Notified bool               // SHUTDOWN was delivered: nothing else may follow
	Check    any                // per-check data
}

type scEnv struct {
	E     *core.Env
	CC    *fakeCC
	Plans map[string]*addrPlan
	tries map[string]int
	WG    sync.WaitGroup
	// Stopped: the policy was closed; automata stop producing events.
	Stopped bool
	// MaxTries bounds the connection attempts per address; later attempts hang
	// in CONNECTING (keeps a run finite when a policy reconnects for ever with
	// nanosecond backoffs).
	MaxTries int

	// Before/After bracket every delivery (inside Into). kind is "state" or "health".
	Before func(sc *fakeSC, kind string, s connectivity.State)
	After  func(sc *fakeSC, kind string, s connectivity.State)
	// Also called from the fake's hooks, after the environment's own handling.
	OnConnect  func(sc *fakeSC)
	OnShutdown func(sc *fakeSC)
}

var errConnRefused = errors.New("simulated: connection refused")

func newSCEnv(e *core.Env, cc *fakeCC, plans []addrPlan) *scEnv {
	env := &scEnv{E: e, CC: cc, Plans: map[string]*addrPlan{}, tries: map[string]int{}, MaxTries: 10}
	for i := range plans {
		env.Plans[plans[i].Addr] = &plans[i]
	}
	prevNew := cc.OnNewSubConn
	cc.OnNewSubConn = func(sc *fakeSC) {
		sc.User = &scAuto{True: connectivity.Idle}
		if prevNew != nil {
			prevNew(sc)
		}
	}
	cc.OnConnect = env.connect
	cc.OnShutdown = env.shutdown
	cc.OnHealthRegister = env.healthRegistered
	return env
}

func auto(sc *fakeSC) *scAuto { return sc.User.(*scAuto) }

func (env *scEnv) deliver(sc *fakeSC, s connectivity.State, err error) {
	env.CC.Into(func() {
		a := auto(sc)
		if a.Notified || env.Stopped {
			return
		}
		if s == connectivity.Shutdown {
			a.Notified = true
		}
		if env.Before != nil {
			env.Before(sc, "state", s)
		}
		sc.Deliver(s, err)
		if env.After != nil {
			env.After(sc, "state", s)
		}
	})
}

func (env *scEnv) connect(sc *fakeSC) {
	a := auto(sc)
	if env.OnConnect != nil {
		defer env.OnConnect(sc)
	}
	if env.Stopped || sc.ShutdownCalled || a.True != connectivity.Idle {
		env.E.Probe("connect_on_non_idle_subchannel")
		return
	}
	addr := sc.Addr()
	out := &connOutcome{K: "hang"}
	if p := env.Plans[addr]; p != nil && len(p.Outcomes) > 0 {
		out = &p.Outcomes[env.tries[addr]%len(p.Outcomes)]
	}
	if env.tries[addr] >= env.MaxTries {
		out = &connOutcome{K: "hang"}
		env.E.Probe("attempt_cap_reached")
	}
	env.tries[addr]++
	a.True, a.Outcome = connectivity.Connecting, out
	env.WG.Add(1)
	go env.attempt(sc, a, out)
}

// gone reports whether the attempt's subchannel no longer produces events.
func (env *scEnv) gone(sc *fakeSC) bool { return env.Stopped || sc.ShutdownCalled }

func (env *scEnv) attempt(sc *fakeSC, a *scAuto, out *connOutcome) {
	defer env.WG.Done()
	env.deliver(sc, connectivity.Connecting, nil)
	if out.K == "hang" {
		return
	}
	time.Sleep(time.Duration(out.D))
	if env.gone(sc) {
		return
	}
	switch out.K {
	case "ready":
		a.True = connectivity.Ready
		env.deliver(sc, connectivity.Ready, nil)
		if out.Life <= 0 {
			return
		}
		time.Sleep(time.Duration(out.Life))
		if env.gone(sc) {
			return
		}
		env.E.Probe("ready_connection_lost")
		a.True = connectivity.Idle
		env.deliver(sc, connectivity.Idle, nil)
	case "fail":
		a.True = connectivity.TransientFailure
		env.deliver(sc, connectivity.TransientFailure, errConnRefused)
		bo := out.Backoff
		if bo <= 0 {
			bo = int64(time.Second)
		}
		time.Sleep(time.Duration(bo))
		if env.gone(sc) {
			return
		}
		a.True = connectivity.Idle
		env.deliver(sc, connectivity.Idle, nil)
	case "idle":
		env.E.Probe("connecting_to_idle")
		a.True = connectivity.Idle
		env.deliver(sc, connectivity.Idle, nil)
	}
}

func (env *scEnv) shutdown(sc *fakeSC) {
	auto(sc).True = connectivity.Shutdown
	if env.OnShutdown != nil {
		env.OnShutdown(sc)
	}
	if env.Stopped {
		return
	}
	env.WG.Add(1)
	go func() {
		defer env.WG.Done()
		env.deliver(sc, connectivity.Shutdown, nil)
	}()
}

func (env *scEnv) healthRegistered(sc *fakeSC) {
	a := auto(sc)
	gen := sc.HealthRegs
	steps := []healthStep{{S: int(connectivity.Ready)}}
	if a.Outcome != nil && len(a.Outcome.Health) > 0 {
		steps = a.Outcome.Health
	}
	env.WG.Add(1)
	go func() {
		defer env.WG.Done()
		for _, st := range steps {
			if st.D > 0 {
				time.Sleep(time.Duration(st.D))
			}
			if env.gone(sc) {
				return
			}
			ok := true
			env.CC.Into(func() {
				if a.Notified || env.Stopped || sc.HealthListener == nil || gen != sc.HealthRegs {
					ok = false
					return
				}
				s := connectivity.State(st.S)
				if env.Before != nil {
					env.Before(sc, "health", s)
				}
				var err error
				if s == connectivity.TransientFailure {
					err = errors.New("simulated: unhealthy")
				}
				sc.DeliverHealth(gen, s, err)
				if env.After != nil {
					env.After(sc, "health", s)
				}
			})
			if !ok {
				return
			}
		}
	}()
}
