package rls

import (
	"fmt"
	"sort"
	"strings"

	"google.golang.org/grpc/balancer/rls/internal/keys"
	rlspb "google.golang.org/grpc/internal/proto/grpc_lookup_v1"
	"google.golang.org/grpc/internal/zzverif/core"
	"google.golang.org/grpc/metadata"
)

// C41 (key clause), input-generation RIDER: BuilderMap.RLSKey is a pure
// function of (config, headers, host, path); nothing here depends on a
// schedule or the clock. Generated configs and requests are compared with an
// independent reference of the statement, and every pair of requests for the
// same path whose key maps differ must get different cache keys.

type c41kHeader struct {
	Key   string   `json:"key"`
	Names []string `json:"names"`
}

type c41kBuilder struct {
	Names   [][2]string  `json:"names"` // service, method ("" = every method of the service)
	Headers []c41kHeader `json:"headers,omitempty"`
	Host    string       `json:"host_key,omitempty"`
	Service string       `json:"service_key,omitempty"`
	Method  string       `json:"method_key,omitempty"`
	Consts  [][2]string  `json:"consts,omitempty"`
}

type c41kReq struct {
	Path string     `json:"path"`
	Host string     `json:"host"`
	MD   [][]string `json:"md,omitempty"` // header name followed by its values
}

type c41kScenario struct {
	Builders []c41kBuilder `json:"builders,omitempty"`
	Reqs     []c41kReq     `json:"reqs,omitempty"`
}

func (s *c41kScenario) validate() error {
	for _, b := range s.Builders {
		if len(b.Names) == 0 {
			return fmt.Errorf("key builder without names")
		}
		seen := map[string]bool{}
		for _, k := range append([]string{b.Host, b.Service, b.Method}, func() (ks []string) {
			for _, h := range b.Headers {
				ks = append(ks, h.Key)
			}
			for _, c := range b.Consts {
				ks = append(ks, c[0])
			}
			return
		}()...) {
			if k == "" {
				continue
			}
			if seen[k] {
				return fmt.Errorf("repeated key")
			}
			seen[k] = true
		}
		for _, n := range b.Names {
			if n[0] == "" || strings.Contains(n[0], "/") || strings.Contains(n[1], "/") {
				return fmt.Errorf("bad name")
			}
		}
		for _, h := range b.Headers {
			if h.Key == "" {
				return fmt.Errorf("empty header key")
			}
		}
	}
	seen := map[string]bool{}
	for _, b := range s.Builders {
		for _, n := range b.Names {
			if seen[n[0]+"/"+n[1]] {
				return fmt.Errorf("repeated name")
			}
			seen[n[0]+"/"+n[1]] = true
		}
	}
	for _, q := range s.Reqs {
		if !strings.HasPrefix(q.Path, "/") || strings.Count(q.Path, "/") != 2 {
			return fmt.Errorf("bad path")
		}
		for _, h := range q.MD {
			if len(h) < 2 || h[0] != strings.ToLower(h[0]) {
				return fmt.Errorf("bad metadata")
			}
		}
	}
	return nil
}

func genC41k(r *core.Rand, tier string) c41kScenario {
	var s c41kScenario
	svcs := []string{"svc", "a.b.C", "x"}
	meths := []string{"m", "Get", "n"}
	hdrs := []string{"h1", "h2", "x-user", "x-id", "k"}
	keyPool := []string{"a", "b", "c", "id", "user", "host", "k", "svc", "m"}
	val := func() string {
		switch r.Intn(8) {
		case 0:
			return core.Pick(r, "x", "y", "1", "")
		case 1:
			// separators of the string form
			return core.Pick(r, "x,y", "x=y", "1,b=2", ",", "=", "x,", "=y", "1,c=3,b=2")
		default:
			n := r.Range(1, 4)
			b := make([]byte, n)
			for i := range b {
				b[i] = "xy12,="[r.Intn(6)]
			}
			return string(b)
		}
	}
	usedNames := map[string]bool{}
	for nb := r.Range(1, 3); nb > 0; nb-- {
		var b c41kBuilder
		for nn := r.Range(1, 2); nn > 0; nn-- {
			n := [2]string{core.Pick(r, svcs...), ""}
			if r.Chance(1, 2) {
				n[1] = core.Pick(r, meths...)
			}
			if usedNames[n[0]+"/"+n[1]] {
				continue
			}
			usedNames[n[0]+"/"+n[1]] = true
			b.Names = append(b.Names, n)
		}
		if len(b.Names) == 0 {
			continue
		}
		pool := append([]string(nil), keyPool...)
		take := func() string {
			i := r.Intn(len(pool))
			k := pool[i]
			pool = append(pool[:i], pool[i+1:]...)
			return k
		}
		for nh := r.Range(0, 3); nh > 0; nh-- {
			h := c41kHeader{Key: take()}
			for k := r.Range(1, 3); k > 0; k-- {
				h.Names = append(h.Names, core.Pick(r, hdrs...))
			}
			b.Headers = append(b.Headers, h)
		}
		if r.Chance(1, 3) {
			b.Host = take()
		}
		if r.Chance(1, 3) {
			b.Service = take()
		}
		if r.Chance(1, 3) {
			b.Method = take()
		}
		for nc := r.Intn(3); nc > 0; nc-- {
			b.Consts = append(b.Consts, [2]string{take(), val()})
		}
		s.Builders = append(s.Builders, b)
	}
	if len(s.Builders) == 0 {
		return c41kScenario{}
	}
	nr := r.Range(2, 6)
	if tier == "thorough" {
		nr = r.Range(2, 12)
	}
	for ; nr > 0; nr-- {
		q := c41kReq{Path: "/" + core.Pick(r, svcs...) + "/" + core.Pick(r, meths...), Host: core.Pick(r, "h.example", "h,2", "")}
		if r.Chance(3, 4) {
			// aim at a configured name
			b := s.Builders[r.Intn(len(s.Builders))]
			n := b.Names[r.Intn(len(b.Names))]
			meth := n[1]
			if meth == "" {
				meth = core.Pick(r, meths...)
			}
			q.Path = "/" + n[0] + "/" + meth
		}
		used := map[string]bool{}
		for nh := r.Intn(4); nh > 0; nh-- {
			name := core.Pick(r, hdrs...)
			if used[name] {
				continue
			}
			used[name] = true
			h := []string{name}
			for nv := core.Pick(r, 1, 1, 1, 2, 3); nv > 0; nv-- {
				h = append(h, val())
			}
			q.MD = append(q.MD, h)
		}
		s.Reqs = append(s.Reqs, q)
	}
	// A pair aimed at the separators: the same path, once with one header
	// carrying "v1,<key2>=v2" and once with two headers carrying v1 and v2.
	if r.Chance(1, 3) {
		for _, b := range s.Builders {
			if len(b.Headers) < 2 {
				continue
			}
			hs := append([]c41kHeader(nil), b.Headers...)
			sort.Slice(hs, func(i, j int) bool { return hs[i].Key < hs[j].Key })
			h1, h2 := hs[0], hs[1]
			if h1.Names[0] == h2.Names[0] {
				continue
			}
			meth := b.Names[0][1]
			if meth == "" {
				meth = "m"
			}
			path := "/" + b.Names[0][0] + "/" + meth
			s.Reqs = append(s.Reqs,
				c41kReq{Path: path, Host: "h", MD: [][]string{{h1.Names[0], "1," + h2.Key + "=2"}}},
				c41kReq{Path: path, Host: "h", MD: [][]string{{h1.Names[0], "1"}, {h2.Names[0], "2"}}})
			break
		}
	}
	return s
}

func c41kConfig(s *c41kScenario) *rlspb.RouteLookupConfig {
	cfg := &rlspb.RouteLookupConfig{}
	for _, b := range s.Builders {
		kb := &rlspb.GrpcKeyBuilder{}
		for _, n := range b.Names {
			kb.Names = append(kb.Names, &rlspb.GrpcKeyBuilder_Name{Service: n[0], Method: n[1]})
		}
		for _, h := range b.Headers {
			kb.Headers = append(kb.Headers, &rlspb.NameMatcher{Key: h.Key, Names: h.Names})
		}
		if b.Host != "" || b.Service != "" || b.Method != "" {
			kb.ExtraKeys = &rlspb.GrpcKeyBuilder_ExtraKeys{Host: b.Host, Service: b.Service, Method: b.Method}
		}
		if len(b.Consts) > 0 {
			kb.ConstantKeys = map[string]string{}
			for _, c := range b.Consts {
				kb.ConstantKeys[c[0]] = c[1]
			}
		}
		cfg.GrpcKeybuilders = append(cfg.GrpcKeybuilders, kb)
	}
	return cfg
}

// c41kRef is the statement: key builder chosen by exact path, then by
// service; per header entry the comma-joined values of the first configured
// header that is present; host/service/method extra keys; constant keys.
func c41kRef(s *c41kScenario, q *c41kReq) map[string]string {
	parts := strings.Split(q.Path, "/") // "", service, method
	svc, meth := parts[1], parts[2]
	var bld *c41kBuilder
	for pass := 0; pass < 2 && bld == nil; pass++ {
		for i := range s.Builders {
			for _, n := range s.Builders[i].Names {
				if n[0] == svc && ((pass == 0 && n[1] == meth && meth != "") || (pass == 1 && n[1] == "")) {
					bld = &s.Builders[i]
				}
			}
		}
	}
	if bld == nil {
		return nil
	}
	out := map[string]string{}
	for _, h := range bld.Headers {
	names:
		for _, name := range h.Names {
			for _, md := range q.MD {
				if md[0] == name {
					out[h.Key] = strings.Join(md[1:], ",")
					break names
				}
			}
		}
	}
	if bld.Host != "" {
		out[bld.Host] = q.Host
	}
	if bld.Service != "" {
		out[bld.Service] = svc
	}
	if bld.Method != "" {
		out[bld.Method] = meth
	}
	for _, c := range bld.Consts {
		out[c[0]] = c[1]
	}
	return out
}

func c41kMapStr(m map[string]string) string {
	ks := make([]string, 0, len(m))
	for k := range m {
		ks = append(ks, k)
	}
	sort.Strings(ks)
	var sb strings.Builder
	for _, k := range ks {
		fmt.Fprintf(&sb, "%q:%q ", k, m[k])
	}
	return "{" + strings.TrimSpace(sb.String()) + "}"
}

func c41kSame(a, b map[string]string) bool {
	if len(a) != len(b) {
		return false
	}
	for k, v := range a {
		if w, ok := b[k]; !ok || w != v {
			return false
		}
	}
	return true
}

func runC41k(e *core.Env, s *c41kScenario) {
	if len(s.Builders) == 0 || len(s.Reqs) == 0 {
		return
	}
	bm, err := keys.MakeBuilderMap(c41kConfig(s))
	if err != nil {
		e.Violate("key_builder_config", "a valid RouteLookupConfig was rejected: %v", err)
		return
	}
	type res struct {
		m   map[string]string
		str string
	}
	var rs []res
	for i := range s.Reqs {
		q := &s.Reqs[i]
		md := metadata.MD{}
		for _, h := range q.MD {
			md[h[0]] = append([]string(nil), h[1:]...)
		}
		got := bm.RLSKey(md, q.Host, q.Path)
		want := c41kRef(s, q)
		if want != nil {
			e.Probe("key_builder_matched")
		}
		if len(want) > 1 {
			e.Probe("key_map_several_keys")
		}
		if !c41kSame(got.Map, want) {
			e.Violate("key_map", "request %d (%s, host %q, headers %v): key map %s, the configured key builders give %s", i, q.Path, q.Host, q.MD, c41kMapStr(got.Map), c41kMapStr(want))
		}
		rs = append(rs, res{got.Map, got.Str})
	}
	for i := range rs {
		for j := i + 1; j < len(rs); j++ {
			if s.Reqs[i].Path != s.Reqs[j].Path {
				continue
			}
			e.Probe("key_pair_same_path")
			if !c41kSame(rs[i].m, rs[j].m) && rs[i].str == rs[j].str {
				e.Violate("key_string_injective", "requests %d and %d for %s have different key maps %s and %s but the same cache key string %q: they share one data cache entry", i, j, s.Reqs[i].Path, c41kMapStr(rs[i].m), c41kMapStr(rs[j].m), rs[i].str)
			}
		}
	}
}

func c41kWarm() {
	s := c41kScenario{Builders: []c41kBuilder{{Names: [][2]string{{"s", "m"}}, Headers: []c41kHeader{{Key: "a", Names: []string{"h1"}}}, Host: "h", Consts: [][2]string{{"c", "v"}}}},
		Reqs: []c41kReq{{Path: "/s/m", Host: "x", MD: [][]string{{"h1", "v"}}}}}
	if bm, err := keys.MakeBuilderMap(c41kConfig(&s)); err == nil {
		_ = bm.RLSKey(metadata.MD{"h1": {"v"}}, "x", "/s/m")
	}
	_ = c41kMapStr(map[string]string{"a": "b"})
}
