package rls

// World "wlcrls": in-package simulation check for the RLS data cache and key
// builder (property C41, part C41rls). The files of this directory are
// overlaid into /repo/balancer/rls/ and compile as part of that package's test
// binary (the package's own tests are compiled along but never run); every
// identifier introduced here starts with "c41"/"sim".

import (
	"io"
	"testing"
	"time"

	"google.golang.org/grpc/grpclog"
	"google.golang.org/grpc/internal/zzverif/core"
)

func init() {
	grpclog.SetLoggerV2(grpclog.NewLoggerV2(io.Discard, io.Discard, io.Discard))
}

func TestSimWorker(t *testing.T) {
	core.GCBetween = false
	core.Warmups = 10
	// first-use paths outside the bubble: uuid/crypto-rand, %+v formatting of a
	// cacheKey on the "too recent to be evicted" path, timers
	dc := newDataCache(1, nil, "")
	dc.addEntry(cacheKey{path: "/a/b", keys: "k=v"}, &cacheEntry{size: 1, earliestEvictTime: time.Now().Add(time.Hour)})
	dc.resize(0)
	dc.stop()
	tm := time.AfterFunc(time.Hour, func() {})
	tm.Stop()
	c41kWarm()
	core.WorkerMain(t)
}

func simGenSched(r *core.Rand, seed uint64) core.Sched {
	return core.Sched{SchedSeed: core.Mix(seed, 11), AuxSeed: core.Mix(seed, 12), YieldThr: core.Pick(r, uint32(0), 200, 700, 3300, 13000, 30000)}
}
