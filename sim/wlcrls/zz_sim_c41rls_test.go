package rls

import (
	"errors"
	"fmt"
	"sort"
	"strings"
	"sync"
	"time"

	"google.golang.org/grpc/internal/zzverif/core"
)

// C41 (data cache clause): the accounted size of the RLS data cache always
// equals the sum of its entries' sizes, and eviction removes least recently
// used entries first, stopping at an entry that is not yet evictable.
//
// The real dataCache is used the way rlsBalancer/rlsPicker use it: every
// operation under one mutex (cacheMu), from several goroutines (pickers doing
// getEntry, the control-channel callback adding/updating entries on success or
// failure with a backoff timer, the purge ticker, config updates resizing the
// cache, the control channel resetting backoff), all on the fake clock. A
// reference model (recency list, sizes, times) is advanced inside the same
// critical section; after every operation the cache is compared with it.

type c41rOp struct {
	GapNs     int64  `json:"gap_ns,omitempty"` // pause before the operation
	Kind      string `json:"kind"`             // get | ok | fail | add | resize | purge | reset
	Key       int    `json:"key,omitempty"`
	Size      int64  `json:"size,omitempty"`       // add: entry size; ok: header data length; resize: new maximum
	AgeNs     int64  `json:"age_ns,omitempty"`     // ok/add: expiry = now + age
	HoldNs    int64  `json:"hold_ns,omitempty"`    // ok/add: earliest eviction = now + hold
	BackoffNs int64  `json:"backoff_ns,omitempty"` // fail
}

type c41rScenario struct {
	Sched   core.Sched   `json:"sched"`
	MaxSize int64        `json:"max_size"`
	KeyLens []int        `json:"key_lens"` // length of the keys string of key i
	Actors  [][]c41rOp   `json:"actors"`
	Keys    c41kScenario `json:"keys"` // key-builder rider (pure)
}

func (s *c41rScenario) SchedP() *core.Sched { return &s.Sched }
func (s *c41rScenario) Shape() string {
	k := map[string]int{}
	for _, a := range s.Actors {
		for _, o := range a {
			k[o.Kind]++
		}
	}
	return fmt.Sprintf("actors=%d keys=%d get=%d ok=%d fail=%d add=%d resize=%d purge=%d reset=%d kb=%d", len(s.Actors), len(s.KeyLens), k["get"], k["ok"], k["fail"], k["add"], k["resize"], k["purge"], k["reset"], len(s.Keys.Builders))
}
func (s *c41rScenario) Validate() error {
	if s.MaxSize < 0 || len(s.KeyLens) == 0 {
		return fmt.Errorf("bad sizes")
	}
	for _, l := range s.KeyLens {
		if l < 0 || l > 1000 {
			return fmt.Errorf("bad key length")
		}
	}
	for _, a := range s.Actors {
		for _, o := range a {
			if o.GapNs < 0 || o.Size < 0 || o.AgeNs < 0 || o.HoldNs < 0 || o.BackoffNs < 0 || o.Key < 0 || o.Key >= len(s.KeyLens) {
				return fmt.Errorf("bad op")
			}
			switch o.Kind {
			case "get", "ok", "fail", "add", "resize", "purge", "reset":
			default:
				return fmt.Errorf("bad kind")
			}
			if o.Kind == "fail" && o.BackoffNs == 0 {
				return fmt.Errorf("zero backoff")
			}
		}
	}
	return s.Keys.validate()
}

func genC41rls(seed uint64, tier string) *c41rScenario {
	r := core.NewRand(seed)
	s := &c41rScenario{Sched: simGenSched(r, seed)}
	nk := r.Range(2, 9)
	for i := 0; i < nk; i++ {
		s.KeyLens = append(s.KeyLens, r.Range(1, 24))
	}
	s.MaxSize = int64(core.Pick(r, 20, 40, 60, 100, 150, 300))
	maxOps := 14
	if tier == "thorough" {
		maxOps = 50
	}
	ms := int64(time.Millisecond)
	gap := func() int64 {
		return core.Pick(r, int64(0), 0, 0, 1, ms, 100*ms, 500*ms, 1000*ms, 2500*ms, 5000*ms, 5000*ms, 10000*ms)
	}
	hold := func() int64 { return core.Pick(r, int64(0), 5000*ms, 5000*ms, 5000*ms, 1000*ms) }
	age := func() int64 { return core.Pick(r, 1000*ms, 5000*ms, 10000*ms, 60000*ms) }
	na := r.Range(1, 4)
	for a := 0; a < na; a++ {
		role := r.Intn(3) // 0 picker, 1 responses, 2 anything
		var ops []c41rOp
		for k := r.Range(2, maxOps); k > 0; k-- {
			op := c41rOp{GapNs: gap(), Key: r.Intn(nk)}
			d := r.Intn(20)
			if role == 0 && d < 16 {
				d = 0
			}
			switch {
			case d < 5:
				op.Kind = "get"
			case d < 9:
				op.Kind, op.Size, op.AgeNs, op.HoldNs = "ok", int64(r.Intn(60)), age(), hold()
			case d < 11:
				op.Kind, op.BackoffNs = "fail", core.Pick(r, 1000*ms, 2000*ms, 5000*ms)
			case d < 14:
				op.Kind, op.Size, op.AgeNs, op.HoldNs = "add", int64(core.Pick(r, 1, 1, 5, 10, 20, 50, 120)), age(), hold()
			case d < 17:
				op.Kind, op.Size = "resize", int64(core.Pick(r, 0, 1, 10, 30, 60, 100, 300))
			case d < 19:
				op.Kind = "purge"
			default:
				op.Kind = "reset"
			}
			ops = append(ops, op)
		}
		s.Actors = append(s.Actors, ops)
	}
	s.Keys = genC41k(r.Fork(), tier)
	return s
}

type c41rEnt struct {
	idx      int
	key      cacheKey
	size     int64
	evictAt  time.Time
	expiry   time.Time
	boExpiry time.Time
	hasBS    bool
	timerOn  bool
	timerAt  time.Time
	fired    *bool
}

type c41rModel struct {
	e     *core.Env
	dc    *dataCache
	order []*c41rEnt // least recently used first
	by    map[int]*c41rEnt
	max   int64
}

func (m *c41rModel) sum() int64 {
	var n int64
	for _, x := range m.order {
		n += x.size
	}
	return n
}

func (m *c41rModel) touch(x *c41rEnt) {
	m.drop(x)
	m.order = append(m.order, x)
	m.by[x.idx] = x
}

func (m *c41rModel) drop(x *c41rEnt) {
	for i, y := range m.order {
		if y == x {
			m.order = append(m.order[:i:i], m.order[i+1:]...)
			break
		}
	}
	delete(m.by, x.idx)
}

// resize predicts an LRU pass down to size at time now. Where the statement
// leaves the outcome open (an entry that becomes evictable at this very
// instant) the prediction follows the cache. It returns the evicted entries
// and what the pass must report about cancelled backoff timers (-1: open).
func (m *c41rModel) resize(now time.Time, size int64) (evicted []*c41rEnt, cancelled int) {
	for m.sum() > size && len(m.order) > 0 {
		h := m.order[0]
		if h.evictAt.After(now) {
			m.e.Probe("lru_pass_stopped_at_unevictable")
			break
		}
		if !h.evictAt.IsZero() && h.evictAt.Equal(now) {
			if _, still := m.dc.entries[h.key]; still {
				break
			}
		}
		if h.timerOn && !*h.fired {
			if h.timerAt.After(now) {
				if cancelled == 0 {
					cancelled = 1
				}
			} else {
				cancelled = -1
			}
		}
		h.timerOn = false
		m.drop(h)
		evicted = append(evicted, h)
	}
	if len(evicted) > 0 {
		m.e.Probe("lru_evicted")
	}
	if len(evicted) > 1 {
		m.e.Probe("lru_evicted_several")
	}
	return evicted, cancelled
}

func c41rNames(xs []*c41rEnt) string {
	var ss []string
	for _, x := range xs {
		ss = append(ss, fmt.Sprintf("k%d", x.idx))
	}
	return "[" + strings.Join(ss, " ") + "]"
}

// check compares the cache with the model after an operation.
func (m *c41rModel) check(what, oracle string) {
	dc, e := m.dc, m.e
	var sum int64
	for _, ent := range dc.entries {
		sum += ent.size
	}
	if sum != dc.currentSize {
		e.Violate("size_accounting", "after %s: accounted size %d, sum of the %d entries' sizes %d", what, dc.currentSize, len(dc.entries), sum)
	}
	if dc.keys.ll.Len() != len(dc.entries) || len(dc.keys.m) != len(dc.entries) {
		e.Violate("lru_structure", "after %s: %d entries but %d keys in the recency list (%d indexed)", what, len(dc.entries), dc.keys.ll.Len(), len(dc.keys.m))
	}
	var extra, missing []string
	for k := range dc.entries {
		found := false
		for _, x := range m.order {
			if x.key == k {
				found = true
			}
		}
		if !found {
			extra = append(extra, k.keys)
		}
		if _, ok := dc.keys.m[k]; !ok {
			e.Violate("lru_structure", "after %s: entry %q is not in the recency list", what, k.keys)
		}
	}
	for _, x := range m.order {
		if _, ok := dc.entries[x.key]; !ok {
			missing = append(missing, fmt.Sprintf("k%d", x.idx))
		}
	}
	if len(extra)+len(missing) > 0 {
		sort.Strings(extra)
		e.Violate(oracle, "after %s: cache and reference differ: still cached but should be gone %v, gone but should be cached %v (reference recency order, LRU first: %s; max %d, size %d)", what, extra, missing, c41rNames(m.order), m.max, dc.currentSize)
		// resynchronise so that one defect is reported once
		for _, x := range append([]*c41rEnt(nil), m.order...) {
			if _, ok := dc.entries[x.key]; !ok {
				m.drop(x)
			}
		}
	}
}

func runC41rls(e *core.Env, s *c41rScenario) {
	runC41k(e, &s.Keys)

	dc := newDataCache(s.MaxSize, nil, "sim")
	m := &c41rModel{e: e, dc: dc, by: map[int]*c41rEnt{}, max: s.MaxSize}
	var mu sync.Mutex // the policy's cacheMu
	keys := make([]cacheKey, len(s.KeyLens))
	for i, l := range s.KeyLens {
		keys[i] = cacheKey{path: fmt.Sprintf("/svc%d/m", i%3), keys: fmt.Sprintf("k%d=", i) + strings.Repeat("v", l)}
	}
	errRLS := errors.New("rls failure")

	cancelCheck := func(what string, got bool, want int) {
		if got {
			e.Probe("backoff_cancelled")
		}
		if want == 1 && !got {
			e.Violate("backoff_cancelled_flag", "%s evicted an entry whose backoff timer was still pending but reported no cancelled backoff", what)
		}
		if want == 0 && got {
			e.Violate("backoff_cancelled_flag", "%s reported a cancelled backoff although no evicted entry had a pending backoff timer", what)
		}
	}

	// lookupOrAdd is the first half of handleRouteLookupResponse.
	lookupOrAdd := func(what string, now time.Time, k int) (*cacheEntry, *c41rEnt) {
		ent := dc.getEntry(keys[k])
		x := m.by[k]
		if (ent == nil) != (x == nil) {
			e.Violate("cache_contents", "%s: getEntry(k%d) found=%v, reference has it=%v", what, k, ent != nil, x != nil)
			if ent == nil {
				m.drop(x)
				x = nil
			} else {
				return ent, nil
			}
		}
		if ent != nil {
			m.touch(x)
			return ent, x
		}
		ent = &cacheEntry{}
		bc, ok := dc.addEntry(keys[k], ent)
		if !ok {
			e.Violate("cache_contents", "%s: addEntry of an empty entry for k%d was refused (max %d)", what, k, m.max)
			return nil, nil
		}
		x = &c41rEnt{idx: k, key: keys[k], fired: new(bool)}
		m.touch(x)
		var want int
		if m.sum() > m.max {
			e.Probe("add_over_max")
			_, want = m.resize(now, m.max)
		}
		cancelCheck(what, bc, want)
		if _, ok := m.by[k]; !ok {
			// the pass went all the way to the new entry
			e.Probe("new_entry_evicted_at_once")
			m.check(what, "lru_eviction")
			return nil, nil
		}
		return ent, x
	}

	do := func(ai, oi int, op c41rOp) {
		mu.Lock()
		defer mu.Unlock()
		now := time.Now()
		what := fmt.Sprintf("a%d.%d %s k%d", ai, oi, op.Kind, op.Key)
		k := op.Key
		kind := op.Kind
		if x := m.by[k]; x != nil && (kind == "add" || ((kind == "ok" || kind == "fail") && x.timerOn && !*x.fired)) {
			// the policy never adds a key twice and sends no request (hence
			// gets no response) for a key in backoff
			kind = "get"
		}
		oracle := "cache_contents"
		switch kind {
		case "get":
			ent := dc.getEntry(keys[k])
			x := m.by[k]
			if (ent == nil) != (x == nil) {
				e.Violate("cache_contents", "%s: getEntry found=%v, reference has it=%v", what, ent != nil, x != nil)
			} else if x != nil {
				m.touch(x)
				e.Probe("get_hit")
			}
			e.Logf("%s -> hit=%v", what, ent != nil)
		case "ok":
			oracle = "lru_eviction"
			ent, x := lookupOrAdd(what, now, k)
			if ent == nil || x == nil {
				break
			}
			ent.headerData = strings.Repeat("h", int(op.Size))
			ent.expiryTime = now.Add(time.Duration(op.AgeNs))
			ent.earliestEvictTime = now.Add(time.Duration(op.HoldNs))
			ent.status = nil
			ent.backoffState = &backoffState{bs: defaultBackoffStrategy}
			ent.backoffTime, ent.backoffExpiryTime = time.Time{}, time.Time{}
			size := int64(len(keys[k].path) + len(keys[k].keys) + len(ent.headerData))
			dc.updateEntrySize(ent, size)
			x.size, x.expiry, x.evictAt, x.boExpiry, x.hasBS, x.timerOn = size, ent.expiryTime, ent.earliestEvictTime, time.Time{}, true, false
			if m.sum() > m.max {
				e.Probe("over_max_after_size_update")
			}
			e.Logf("%s size=%d", what, size)
		case "fail":
			oracle = "lru_eviction"
			ent, x := lookupOrAdd(what, now, k)
			if ent == nil || x == nil {
				break
			}
			bo := time.Duration(op.BackoffNs)
			ent.status = errRLS
			bs := &backoffState{bs: defaultBackoffStrategy, retries: 1}
			ent.backoffState = bs
			ent.backoffTime = now.Add(bo)
			ent.backoffExpiryTime = now.Add(2 * bo)
			fired := new(bool)
			bs.timer = time.AfterFunc(bo, func() {
				*fired = true
				e.Probe("backoff_timer_fired")
				mu.Lock()
				e.Logf("backoff timer of k%d fired", k)
				mu.Unlock()
			})
			x.boExpiry, x.hasBS, x.timerOn, x.timerAt, x.fired = ent.backoffExpiryTime, true, true, ent.backoffTime, fired
			e.Logf("%s backoff=%v", what, bo)
		case "add":
			oracle = "lru_eviction"
			ent := &cacheEntry{size: op.Size, expiryTime: now.Add(time.Duration(op.AgeNs)), earliestEvictTime: now.Add(time.Duration(op.HoldNs))}
			bc, ok := dc.addEntry(keys[k], ent)
			if op.Size > m.max {
				e.Probe("oversize_entry")
				if ok {
					e.Violate("cache_contents", "%s: an entry of size %d was accepted by a cache of maximum size %d", what, op.Size, m.max)
				}
				break
			}
			if !ok {
				e.Violate("cache_contents", "%s: an entry of size %d was refused by a cache of maximum size %d", what, op.Size, m.max)
				break
			}
			x := &c41rEnt{idx: k, key: keys[k], size: op.Size, expiry: ent.expiryTime, evictAt: ent.earliestEvictTime, fired: new(bool)}
			m.touch(x)
			var want int
			if m.sum() > m.max {
				e.Probe("add_over_max")
				_, want = m.resize(now, m.max)
			}
			cancelCheck(what, bc, want)
			e.Logf("%s size=%d", what, op.Size)
		case "resize":
			oracle = "lru_eviction"
			bc := dc.resize(op.Size)
			m.max = op.Size
			ev, want := m.resize(now, op.Size)
			cancelCheck(what, bc, want)
			e.Logf("%s to %d evicted %s", what, op.Size, c41rNames(ev))
		case "purge":
			oracle = "expired_eviction"
			got := dc.evictExpiredEntries()
			n := 0
			for _, x := range append([]*c41rEnt(nil), m.order...) {
				if x.expiry.After(now) || x.boExpiry.After(now) {
					continue
				}
				if (!x.expiry.IsZero() && x.expiry.Equal(now)) || (!x.boExpiry.IsZero() && x.boExpiry.Equal(now)) {
					// expires at this very instant: follow the cache
					if _, still := dc.entries[x.key]; still {
						continue
					}
				}
				m.drop(x)
				n++
			}
			if n > 0 {
				e.Probe("purge_evicted")
			}
			if got != (n > 0) {
				e.Violate("expired_eviction", "%s: evictExpiredEntries returned %v, %d entries were expired", what, got, n)
			}
			e.Logf("%s evicted %d", what, n)
		case "reset":
			dc.resetBackoffState(&backoffState{bs: defaultBackoffStrategy})
			for _, x := range m.order {
				if x.hasBS {
					x.timerOn = false
					x.boExpiry = time.Time{}
				}
			}
			e.Logf("%s", what)
		}
		m.check(what, oracle)
	}

	var wg sync.WaitGroup
	for ai, ops := range s.Actors {
		wg.Add(1)
		go func() {
			defer wg.Done()
			for oi, op := range ops {
				if op.GapNs > 0 {
					time.Sleep(time.Duration(op.GapNs))
				}
				do(ai, oi, op)
			}
		}()
	}
	wg.Wait()

	// Drain: once everything is evictable the cache must give its entries up
	// in exactly the reference recency order.
	time.Sleep(11 * time.Second)
	mu.Lock()
	for guard := 0; dc.currentSize > 0 && guard < 100; guard++ {
		now := time.Now()
		target := dc.currentSize - 1
		dc.resize(target)
		m.max = target
		ev, _ := m.resize(now, target)
		e.Logf("drain to %d evicted %s", target, c41rNames(ev))
		m.check(fmt.Sprintf("drain to %d", target), "lru_eviction")
	}
	dc.stop()
	if dc.currentSize != 0 || len(dc.entries) != 0 || dc.keys.ll.Len() != 0 {
		e.Violate("size_accounting", "after stop: accounted size %d, %d entries, %d keys", dc.currentSize, len(dc.entries), dc.keys.ll.Len())
	}
	if dc.getEntry(keys[0]) != nil {
		e.Violate("cache_contents", "getEntry after stop returned an entry")
	}
	mu.Unlock()
}

func init() { core.Register("C41rls", genC41rls, runC41rls) }
