package wtc

import (
	"bytes"
	"compress/gzip"
	"encoding/binary"
	"io"

	"google.golang.org/grpc/codes"
	"google.golang.org/grpc/internal/zzverif/core"
	"google.golang.org/grpc/internal/zzverif/simnet"
	"google.golang.org/grpc/internal/zzverif/tap"
)

// ---- C06: message framing and size limits (client as receiver) ----

// The model re-parses the byte stream the peer put on a stream with the gRPC
// framing rules and derives what the application may see.
type c06Want struct {
	msgs  [][]byte
	class string // "status" (the peer's trailers decide) | "exhausted" | "error"
	why   string
	code  int
}

func (w *run) c06Model(ps *peerStream) c06Want {
	limit := w.sc.Client.MaxRecv
	if limit <= 0 {
		limit = 4 << 20
	}
	enc := ps.respEnc
	b := ps.rawSent
	var want c06Want
	for len(b) > 0 {
		if len(b) < 5 {
			want.class, want.why = "error", "stream ends inside a length prefix"
			return want
		}
		flag := b[0]
		decl := int64(binary.BigEndian.Uint32(b[1:5]))
		if decl > int64(limit) {
			want.class, want.why = "exhausted", "declared length above the limit"
			return want
		}
		if int64(len(b)-5) < decl {
			want.class, want.why = "error", "stream ends inside a message"
			return want
		}
		payload := b[5 : 5+decl]
		b = b[5+decl:]
		switch flag {
		case 0:
			want.msgs = append(want.msgs, payload)
		case 1:
			if enc == "" || enc == "identity" {
				want.class, want.why = "error", "compressed flag without grpc-encoding"
				return want
			}
			switch enc {
			case "gzip":
				zr, err := gzip.NewReader(bytes.NewReader(payload))
				if err != nil {
					want.class, want.why = "error", "not gzip"
					return want
				}
				out, err := io.ReadAll(io.LimitReader(zr, int64(limit)+1))
				if err != nil {
					want.class, want.why = "error", "bad gzip"
					return want
				}
				if len(out) > limit {
					want.class, want.why = "exhausted", "decompressed size above the limit"
					return want
				}
				want.msgs = append(want.msgs, out)
			case "simcnt":
				if len(payload) < 12 {
					want.class, want.why = "error", "bad simcnt"
					return want
				}
				n := int(binary.BigEndian.Uint32(payload[0:]))
				if n > limit {
					want.class, want.why = "exhausted", "decompressed size above the limit"
					return want
				}
				out := make([]byte, n)
				tap.FillPat(out, binary.BigEndian.Uint32(payload[4:]), 's', int(binary.BigEndian.Uint32(payload[8:])))
				want.msgs = append(want.msgs, out)
			default:
				want.class, want.why = "error", "no decompressor for "+enc
				return want
			}
		default:
			want.class, want.why = "error", "unknown message flag"
			return want
		}
	}
	want.class = "status"
	return want
}

func c06Consumed(w c06Want) int {
	n := 0
	for _, m := range w.msgs {
		n += 5 + len(m)
	}
	return n
}

func c06End(w *run) {
	if !w.sc.has("framing") {
		return
	}
	e := w.e
	limit := w.sc.Client.MaxRecv
	if limit <= 0 {
		limit = 4 << 20
	}
	for _, id := range w.ids {
		st := w.rpcs[id]
		if !st.clientDone || len(st.peerStreams) != 1 {
			continue
		}
		ps := st.peerStreams[0]
		if !ps.scriptEnd {
			continue
		}
		want := w.c06Model(ps)
		got := st.recvBytes
		// delivered messages are a prefix of the expected ones, byte for byte
		for i, g := range got {
			if i >= len(want.msgs) {
				e.Violate("framing_extra_message", "rpc %d: the application received message %d (%d bytes) but the byte stream contains only %d deliverable messages (then: %s %s)", id, i, len(g), len(want.msgs), want.class, want.why)
				break
			}
			if !bytes.Equal(g, want.msgs[i]) {
				e.Violate("framing_message_mismatch", "rpc %d: message %d delivered with %d bytes differs from the message on the wire (%d bytes)", id, i, len(g), len(want.msgs[i]))
				break
			}
		}
		code := st.clientStatus.Code()
		switch want.class {
		case "exhausted":
			e.Probe("c06_expect_resource_exhausted")
			if len(got) == len(want.msgs) && code != codes.ResourceExhausted {
				e.Violate("size_limit_not_enforced", "rpc %d: %s (limit %d) after %d good messages, but the RPC ended with %v instead of RESOURCE_EXHAUSTED", id, want.why, limit, len(want.msgs), code)
			}
		case "error":
			e.Probe("c06_expect_error")
			if len(got) == len(want.msgs) && code == codes.OK && want.why == "stream ends inside a length prefix" {
				// separate name: see known findings (Stream.ReadMessageHeader)
				e.Violate("truncated_prefix_accepted", "rpc %d: the stream ends after %d byte(s) of a 5-byte length prefix (following %d good messages), but the RPC ended OK instead of with an error", id, len(ps.rawSent)-c06Consumed(want), len(want.msgs))
			} else if len(got) == len(want.msgs) && code == codes.OK {
				e.Violate("malformed_stream_accepted", "rpc %d: %s after %d good messages, but the RPC ended OK", id, want.why, len(want.msgs))
			}
		default:
			e.Probe("c06_expect_all_delivered")
			pcode, ok := st.peerReturned[ps.att]
			if ok && pcode >= 0 {
				if len(got) != len(want.msgs) {
					e.Violate("framing_missing_message", "rpc %d: the byte stream carries %d well-formed messages within the limit, the application received %d (final status %v)", id, len(want.msgs), len(got), code)
				} else if codes.Code(pcode) != code {
					e.Violate("framing_status_mismatch", "rpc %d: all %d messages were well-formed; the peer's status is %v, the RPC ended with %v", id, len(want.msgs), codes.Code(pcode), code)
				}
			}
		}
	}
	// the counting decompressor was never asked for more than limit+1 bytes
	keys := make([]cntKey, 0, len(w.cntPulled))
	for k := range w.cntPulled {
		keys = append(keys, k)
	}
	for _, k := range keys {
		if n := w.cntPulled[k]; n > int64(limit)+1 {
			e.Violate("decompression_beyond_limit", "the decompressing reader of a message was asked for %d bytes, the receive limit is %d", n, limit)
		} else if n == int64(limit)+1 {
			e.Probe("decompressor_stopped_at_limit_plus_one")
		}
	}
}

func init() { endHooks = append(endHooks, c06End) }

func genC06(seed uint64, tier string) *Scenario {
	r := core.NewRand(seed)
	s := &Scenario{Sched: genSched(r, seed), Net: genNet(r, seed, false), Peer: defPeer()}
	s.Oracles = []string{"framing"}
	s.Net.InflightCap, s.Net.LatencyNs = 0, int64(core.Pick(r, 0, 0, 1000))
	c := &s.Client
	c.DisableRetry = true
	c.ReadBuf = core.Pick(r, 0, 0, -1, 1, 4096)
	c.LegacyDecomp = r.Chance(1, 4)
	limit := core.Pick(r, 0, 1, 5, 100, 1000, 16384, 70000)
	c.MaxRecv = limit
	eff := limit
	if eff == 0 {
		eff = 4 << 20
	}
	big := 200000
	if slowNet(s) {
		big = 3000 // every byte is a scheduling event with this network
		if limit == 0 || limit > big {
			limit = core.Pick(r, 1, 5, 100, 1000)
			c.MaxRecv, eff = limit, limit
		}
	}
	size := func() int {
		switch r.Intn(6) {
		case 0:
			return 0
		case 1, 2:
			return max(0, min(eff, big)+core.Pick(r, -1, 0, 1))
		case 3:
			return r.Range(0, min(eff, 5000, big))
		default:
			return r.LogUniform(1, min(2*eff, big/2))
		}
	}
	n := r.Range(1, 3)
	for i := 0; i < n; i++ {
		rpc := RPC{ID: uint32(i + 1), StartNs: int64(r.Intn(2)) * int64(r.Intn(1000000))}
		rpc.Client = []Op{{Op: "close_send"}, {Op: "recv_all"}}
		enc := core.Pick(r, "", "", "gzip", "gzip", "simcnt", "simcnt", "nosuch", "identity")
		hdr := SOp{Op: "headers"}
		if enc != "" {
			hdr.MD = []KV{{K: "grpc-encoding", V: enc}}
		}
		srv := []SOp{hdr}
		nm := r.Range(1, 4)
		for k := 0; k < nm; k++ {
			op := SOp{Op: "send", N: size()}
			switch r.Intn(4) {
			case 0:
				op.Split = []int{core.Pick(r, 1, 1, 2, 3, 4, 5, 6)}
				if op.N > 3000 {
					op.Split = []int{core.Pick(r, 1, 5), 4, 1, 16384, 16384, 16384, 16384, 16384}
				}
			case 1:
				op.Split = []int{r.Range(1, 9), r.Range(1, 9), r.Range(1, 20000)}
			case 2:
				op.Split = []int{16384}
			}
			menc := ""
			if (enc == "gzip" || enc == "simcnt") && r.Chance(3, 4) {
				menc = enc
			} else if r.Chance(1, 12) {
				menc = core.Pick(r, "gzip", "simcnt")
			}
			op.Enc = menc
			if menc != "" {
				op.Flag = 1
			}
			if menc == "simcnt" && r.Chance(1, 4) {
				op.N = core.Pick(r, eff+1, eff+2, 100<<20, 1<<31-1) // bomb
			}
			if menc == "gzip" && op.N > 50000 {
				op.N = r.Range(0, 50000)
			}
			switch r.Intn(14) {
			case 0:
				op.Flag = core.Pick(r, 2, 3, 128, 255)
			case 1:
				op.Flag = 1 - op.Flag
			case 2:
				op.Lie = core.Pick(r, 1, -1, 5, 1000, 1<<24, -(1 << 30))
			}
			last := k == nm-1
			if last && r.Chance(1, 6) && op.N > 0 {
				op.Trunc = r.Range(1, 5+op.N-1) // END_STREAM inside the prefix or the message
			}
			srv = append(srv, op)
		}
		switch r.Intn(8) {
		case 0:
			srv = append(srv, SOp{Op: "end_data"})
		default:
			srv = append(srv, SOp{Op: "trailers", Code: core.Pick(r, 0, 0, 0, 3)})
		}
		rpc.Server = [][]SOp{srv}
		s.RPCs = append(s.RPCs, rpc)
	}
	return s
}

func init() { core.Register("C06", genC06, Run) }

var _ = simnet.Cfg{}
