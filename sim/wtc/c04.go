package wtc

import (
	"golang.org/x/net/http2"

	"google.golang.org/grpc/codes"
	"google.golang.org/grpc/internal/zzverif/core"
	"google.golang.org/grpc/internal/zzverif/tap"
)

// ---- C04 (client as receiver) ----

// recvLedger is the wire view of what the client has advertised: its
// SETTINGS_INITIAL_WINDOW_SIZE and WINDOW_UPDATEs from the moment it writes
// them, the peer's DATA from the moment the peer writes it.
type recvLedger struct {
	iws      int64
	connUpd  int64
	connData int64
	upd      map[uint32]int64
	data     map[uint32]int64
}

func newRecvLedger() *recvLedger {
	return &recvLedger{iws: 65535, upd: map[uint32]int64{}, data: map[uint32]int64{}}
}

const maxWindow = 1<<31 - 1

// c04Sink sees client-written and peer-written frames.
func (w *run) c04Sink(v *cview, f *tap.Frame) {
	l := v.rl
	e := w.e
	switch {
	case f.From == 's' && f.Phase == 'w' && f.Type == http2.FrameData:
		l.connData += int64(f.Length)
		l.data[f.StreamID] += int64(f.Length)
	case f.From == 'c' && f.Phase == 'w' && f.Type == http2.FrameWindowUpdate:
		if f.StreamID == 0 {
			l.connUpd += int64(f.Increment)
			if win := 65535 + l.connUpd - l.connData; win > maxWindow {
				e.Violate("advertised_window_overflow", "conn %d: the connection window advertised by the client reaches %d (> 2^31-1)", v.idx, win)
			}
		} else {
			l.upd[f.StreamID] += int64(f.Increment)
			if win := l.iws + l.upd[f.StreamID] - l.data[f.StreamID]; win > maxWindow {
				e.Violate("advertised_window_overflow", "conn %d stream %d: the stream window advertised by the client reaches %d (> 2^31-1)", v.idx, f.StreamID, win)
			} else if win > 1<<30 {
				e.Probe("advertised_window_above_2_30")
			}
		}
	case f.From == 'c' && f.Phase == 'w' && f.Type == http2.FrameSettings && !f.Ack():
		for _, s := range f.Settings {
			if s.ID == http2.SettingInitialWindowSize {
				if int64(s.Val) > l.iws && l.iws != 65535 || int64(s.Val) > 65535 && len(v.order) > 0 {
					e.Probe("client_raised_its_window")
				}
				l.iws = int64(s.Val)
			}
		}
	case f.From == 'c' && f.Phase == 'w' && f.Type == http2.FrameRSTStream && f.ErrCode == http2.ErrCodeFlowControl:
		e.Probe("client_rst_flow_control")
	}
}

func (w *run) cfgStreamWindow() int64 {
	if x := int64(w.sc.Client.StreamWindow); x >= 65535 {
		return x
	}
	return 65535
}

func (w *run) cfgConnWindow() int64 {
	if x := int64(w.sc.Client.ConnWindow); x >= 65535 {
		return x
	}
	return 65535
}

// c04Quiescent: after the application has read everything that was delivered,
// the peer's view of the windows is back at the configured size (no lost
// WINDOW_UPDATE).
func (w *run) c04Quiescent() {
	e := w.e
	for _, pc := range w.liveConns() {
		v := w.views[pc.idx]
		if v.cliGoAway || len(pc.q) > 0 {
			continue
		}
		allRead := true
		for _, id := range pc.order {
			ps := pc.streams[id]
			if !ps.haveRPC || ps.ignored {
				continue
			}
			st := w.rpcs[ps.rpc]
			if st == nil {
				continue
			}
			// everything the peer sent on this stream has been read by the application?
			sent := st.peerSent[ps.att]
			got := 0
			for _, r := range st.recvd {
				if r.att == ps.att {
					got++
				}
			}
			complete := got == len(sent) && ps.scriptIdle
			if ps.overSent > 0 {
				complete = false
			}
			if !complete {
				if !ps.closed() && !ps.rstByClient && ps.sent > 0 {
					allRead = false
				}
				continue
			}
			if ps.closed() || ps.rstByClient || st.clientDone {
				continue
			}
			win := pc.cliIWS + ps.sendUpd - ps.sent
			cfg := w.cfgStreamWindow()
			e.Probe("stream_window_checked_at_rest")
			if win < cfg {
				e.Probe("stream_window_below_configured_at_rest")
			}
			// grpc-go batches window updates until a quarter of the window has been
			// consumed (flowcontrol.go); what is outstanding can never reach that
			if win < cfg-cfg/4 {
				e.Violate("stream_window_not_restored", "conn %d stream %d (rpc %d): the application has read all %d messages, yet the peer's view of the stream window is %d of the configured %d: a WINDOW_UPDATE was lost", pc.idx, ps.id, ps.rpc, got, win, cfg)
			}
		}
		if allRead && pc.connSent > 0 {
			win := 65535 + pc.connSendUpd - pc.connSent
			cfg := w.cfgConnWindow()
			e.Probe("conn_window_checked_at_rest")
			if win < cfg {
				e.Probe("conn_window_below_configured_at_rest")
			}
			if win < cfg-cfg/4 {
				e.Violate("conn_window_not_restored", "conn %d: everything delivered has been read, yet the peer's view of the connection window is %d of the configured %d", pc.idx, win, cfg)
			}
		}
	}
}

// c04End: class A: the client never complains; class B: the excess is rejected
// and never reaches the application; messages arrive intact.
func c04End(w *run) {
	if !w.sc.has("recvflow") {
		return
	}
	e := w.e
	for _, pc := range w.peers {
		if pc == nil {
			continue
		}
		over := false
		for _, id := range pc.order {
			ps := pc.streams[id]
			if ps.overSent > 0 {
				over = true
				code, rst := pc.cliRst[id]
				closedConn := pc.cliGoAway && pc.cliGoAwayCode != http2.ErrCodeNo
				if !(rst && code == http2.ErrCodeFlowControl) && !closedConn && !pc.dead {
					e.Violate("window_excess_not_rejected", "conn %d stream %d: the peer sent %d bytes beyond the stream window the client had advertised and the client neither reset the stream with FLOW_CONTROL_ERROR nor closed the connection", pc.idx, id, ps.overSent)
				} else {
					e.Probe("window_excess_rejected")
				}
			}
		}
		if !over && !w.faulty {
			if pc.flowErrs > 0 {
				e.Violate("conforming_peer_rejected", "conn %d: the peer stayed within every window the client advertised but the client sent RST_STREAM(FLOW_CONTROL_ERROR) %d time(s)", pc.idx, pc.flowErrs)
			}
			if pc.cliGoAway && pc.cliGoAwayCode != http2.ErrCodeNo {
				e.Violate("conforming_peer_rejected", "conn %d: the peer stayed within every window but the client closed the connection with GOAWAY(%v)", pc.idx, pc.cliGoAwayCode)
			}
		}
	}
	for _, id := range w.ids {
		st := w.rpcs[id]
		perAtt := map[int]int{}
		for _, r := range st.recvd {
			sent := st.peerSent[r.att]
			k := perAtt[r.att]
			perAtt[r.att]++
			if k >= len(sent) {
				e.Violate("recv_unsent_message", "rpc %d: the application received message %d but the peer sent only %d", id, k, len(sent))
				continue
			}
			if sent[k].overrun {
				e.Violate("window_excess_delivered", "rpc %d: message %d, whose last bytes were sent beyond the advertised stream window, was delivered to the application", id, k)
			}
			if sent[k].n != r.n || !r.patOK {
				e.Violate("recv_payload_mismatch", "rpc %d: message %d delivered with %d bytes (pattern ok=%v), the peer sent %d", id, k, r.n, r.patOK, sent[k].n)
			}
		}
		if !w.faulty && !st.cancelled && st.clientDone && st.clientStatus.Code() == codes.OK {
			for att, sent := range st.peerSent {
				if att == len(st.peerStreams)-1 && perAtt[att] != len(sent) {
					e.Violate("recv_missing_message", "rpc %d ended OK after %d messages but the peer sent %d", id, perAtt[att], len(sent))
				}
			}
		}
	}
}

func init() { endHooks = append(endHooks, c04End) }

// ---- generator ----

func genC04wt(seed uint64, tier string) *Scenario {
	r, s := genBase(seed, tier, true)
	s.Oracles = []string{"recvflow"}
	s.Client.WriteBuf = core.Pick(r, 0, 0, -1, 4096)
	c := &s.Client
	c.StreamWindow = int32(core.Pick(r, 0, 65535, 65536, 100000, 1<<20))
	c.ConnWindow = int32(core.Pick(r, 0, 65535, 70000, 1<<20, 4<<20))
	classB := r.Chance(1, 4)
	c.Static = classB || r.Chance(1, 2)
	p := &s.Peer
	p.BDPAckDelayNs = int64(core.Pick(r, 0, 0, 1000, 1000000, 50000000))
	win := int(c.StreamWindow)
	if win < 65535 {
		win = 65535
	}
	b := newBudget(s, tier)
	n := r.Range(1, 4)
	horizon := int64(3000000000)
	for i := 0; i < n; i++ {
		rpc := RPC{ID: uint32(i + 1), StartNs: int64(r.Intn(2)) * int64(r.Intn(3000000))}
		rpc.Client = []Op{{Op: "send", N: r.Range(0, 100)}, {Op: "close_send"}}
		srv := []SOp{{Op: "headers"}}
		nm := r.Range(1, 5)
		over := classB && i == 0
		for k := 0; k < nm; k++ {
			var sz int
			switch r.Intn(6) {
			case 0:
				sz = r.Range(0, 50)
			case 1:
				sz = win - 5 + r.Range(-2, 2)
			case 2:
				sz = r.Range(win, 4*win)
			case 3:
				sz = 16384*r.Range(1, 3) + r.Range(-6, 1)
			default:
				sz = r.LogUniform(1, 2*win)
			}
			if over {
				sz = r.Range(0, win/(2*nm)) // fits the window although the application does not read
			}
			sz = b.take(sz)
			op := SOp{Op: "send", N: sz, Pad: core.Pick(r, 0, 0, 0, 1, 100, 255)}
			switch r.Intn(4) {
			case 0:
				op.Split = []int{core.Pick(r, 1, 2, 100, 1000)}
				if op.Split[0] < 100 && sz > 3000 {
					op.Split = []int{r.Range(500, 5000)}
				}
			case 1:
				op.Split = []int{r.Range(1, 16384), r.Range(1, 16384), r.Range(1, 200)}
			}
			// padding multiplies the bytes on the wire: a 1-byte split with 255
			// bytes of padding is 257 wire bytes per payload byte
			if op.Pad > 0 && len(op.Split) > 0 && op.Split[0] < 100 && sz > 300 {
				op.Pad = 1
			}
			if slowNet(s) {
				op.Pad = min(op.Pad, 1)
				if len(op.Split) > 0 && op.Split[0] < 500 && sz > 2000 {
					op.Split = []int{r.Range(500, 5000)}
				}
			}
			if !over && !slowNet(s) && r.Chance(1, 6) {
				// frames of nothing but padding, up to several windows' worth:
				// their flow-control cost must come back although nothing is
				// delivered to the application
				pp := core.Pick(r, 1, 100, 255)
				k := r.Range(1, 3*win) / (pp + 1)
				srv = append(srv, SOp{Op: "padding", N: max(1, min(k, 800)), Pad: pp})
			}
			srv = append(srv, op)
			if r.Chance(1, 4) {
				srv = append(srv, SOp{Op: "sleep", Ns: int64(r.LogUniform(1000, 100000000))})
			}
			if over {
				op.Pad = 0
			}
			// the application reads with arbitrary delays, or not at all
			if !over {
				switch r.Intn(4) {
				case 0:
					rpc.Client = append(rpc.Client, Op{Op: "sleep", Ns: int64(r.LogUniform(1000, 500000000))}, Op{Op: "recv"})
				case 1:
					rpc.Client = append(rpc.Client, Op{Op: "recv"})
				}
			}
		}
		if over {
			// the application does not read while the peer overruns the window
			rpc.Client = append(rpc.Client, Op{Op: "sleep", Ns: horizon + 3000000000})
			srv = append(srv, SOp{Op: "overrun", Over: core.Pick(r, 1, 1, 2, 100, 16384, 70000), N: core.Pick(r, 0, 0, 1, 1000)})
			srv = append(srv, SOp{Op: "hang"})
		} else {
			if r.Chance(1, 5) {
				rpc.Client = append(rpc.Client, Op{Op: "sleep", Ns: int64(r.LogUniform(1000000, 2000000000))})
			}
			if r.Chance(1, 6) {
				// stays open: everything read, the peer sends no more for a while
				srv = append(srv, SOp{Op: "sleep", Ns: horizon + 500000000})
			}
			srv = append(srv, SOp{Op: "trailers"})
		}
		rpc.Client = append(rpc.Client, Op{Op: "recv_all"})
		rpc.Server = [][]SOp{srv}
		s.RPCs = append(s.RPCs, rpc)
	}
	aligned := !classB && r.Chance(1, 5)
	if aligned {
		// a stream opened at the instant of a BDP window raise: on an ideal
		// network RPC 1's response (more than 2/3 of the default window) arrives
		// at t=0 and starts a BDP ping; the peer acknowledges it d later, which
		// raises the window to twice the sample; RPCs 2.. start at d, so NewStream
		// races with updateFlowControl (seeded change C04b), and their peer
		// scripts fill the window the client has advertised by then before the
		// application reads
		s.Net.LatencyNs, s.Net.StallPct, s.Net.DialDelayNs = 0, 0, 0
		c.Static = false
		c.StreamWindow = int32(core.Pick(r, 0, 65535))
		c.ConnWindow = int32(core.Pick(r, 0, 65535, 70000))
		d := int64(core.Pick(r, 1000, 1000000, 1000000, 50000000))
		p.BDPAckDelayNs = d
		first := r.Range(45000, 65000)
		s.RPCs = []RPC{{ID: 1,
			Client: []Op{{Op: "send", N: r.Range(0, 100)}, {Op: "close_send"}, {Op: "recv"}, {Op: "recv_all"}},
			Server: [][]SOp{{{Op: "headers"}, {Op: "send", N: first}, {Op: "sleep", Ns: 2*d + 200000000}, {Op: "trailers"}}}}}
		for i := r.Range(1, 3); i > 0; i-- {
			id := uint32(len(s.RPCs) + 1)
			s.RPCs = append(s.RPCs, RPC{ID: id, StartNs: d + int64(core.Pick(r, 0, 0, 0, 0, 1, -1)),
				Client: []Op{{Op: "send", N: r.Range(0, 100)}, {Op: "close_send"}, {Op: "sleep", Ns: int64(core.Pick(r, 1000000, 100000000))}, {Op: "recv_all"}},
				Server: [][]SOp{{{Op: "headers"}, {Op: "send", N: r.Range(66000, 2*first-10)}, {Op: "trailers"}}}})
		}
	}
	if !classB && !aligned && r.Chance(1, 6) {
		// input rider: a length prefix close to 2^31 makes the client grant the
		// largest window it may (never more than 2^31-1 in total)
		s.Client.MaxRecv = 1<<31 - 1
		s.RPCs[0].Server[0] = []SOp{{Op: "headers"}, {Op: "send", N: r.Range(10, 1000), Lie: core.Pick(r, 1<<31-2000, 1<<30, 1<<31-70000)}, {Op: "sleep", Ns: 1000000}, {Op: "send", N: 100, Lie: 1 << 30}, {Op: "sleep", Ns: 100000000}, {Op: "rst", Code: 8}}
	}
	for _, at := range []int64{1000000, 30000000, 700000000, horizon - 1000000, horizon + 400000000} {
		s.Actions = append(s.Actions, act(at, "check"))
	}
	if r.Chance(1, 5) && !classB && !aligned {
		genFaults(r, s, "stall")
	}
	sortActions(s)
	return s
}

func init() { core.Register("C04wt", genC04wt, Run) }
