package wtc

import (
	"sort"

	"google.golang.org/grpc/internal/zzverif/core"
	"google.golang.org/grpc/internal/zzverif/simnet"
)

func genSched(r *core.Rand, seed uint64) core.Sched {
	return core.Sched{SchedSeed: core.Mix(seed, 11), AuxSeed: core.Mix(seed, 12), YieldThr: core.Pick(r, uint32(0), 60, 200, 700, 2000, 6500)}
}

func genNet(r *core.Rand, seed uint64, stalls bool) simnet.Cfg {
	c := simnet.Cfg{Seed: core.Mix(seed, 21)}
	switch r.Intn(4) {
	case 0: // ideal network
	case 1:
		c.SegMax = core.Pick(r, 1, 7, 100, 1000, 16384, 70000)
		if r.Chance(1, 2) {
			c.SegMin = c.SegMax/2 + 1
		}
	case 2:
		c.SegMax = core.Pick(r, 9, 500, 5000, 40000)
		c.LatencyNs = int64(core.Pick(r, 0, 1000, 100000, 2000000))
	default:
		c.SegMax = core.Pick(r, 0, 3, 300, 20000)
		c.LatencyNs = int64(core.Pick(r, 0, 50000, 1000000))
		if stalls {
			c.StallPct = core.Pick(r, 0, 5, 30)
			c.StallNs = int64(core.Pick(r, 1000, 1000000, 50000000))
		}
		c.InflightCap = core.Pick(r, 0, 1, 4096, 100000)
		c.ReadMax = core.Pick(r, 0, 1, 64, 5000)
	}
	return c
}

func defPeer() PeerCfg { return PeerCfg{IWS: -1, MFS: -1, MCS: -1, HTS: -1} }

func noSettings(a Action) Action {
	a.IWS, a.MFS, a.MCS, a.HTS = -1, -1, -1, -1
	return a
}

func act(at int64, kind string) Action {
	return noSettings(Action{AtNs: at, Kind: kind})
}

func genBase(seed uint64, tier string, stalls bool) (*core.Rand, *Scenario) {
	r := core.NewRand(seed)
	s := &Scenario{Sched: genSched(r, seed), Net: genNet(r, seed, stalls), Peer: defPeer()}
	s.Client.WriteBuf = core.Pick(r, 0, 0, -1, 1, 4096, 100000)
	s.Client.ReadBuf = core.Pick(r, 0, 0, -1, 1, 4096)
	s.Client.SharedWrite = r.Chance(1, 4)
	if s.Client.WriteBuf == 1 && s.Net.InflightCap == 1 {
		s.Net.InflightCap = 4096 // one blocking write per byte: too expensive to simulate
	}
	return r, s
}

// budget caps the bytes a scenario moves so that a run stays cheap even with
// one-byte segments.
type budget struct{ left int }

func newBudget(s *Scenario, tier string) *budget {
	b := 1500000
	if tier == "thorough" {
		b = 4000000
	}
	if slowNet(s) {
		b /= 20
	}
	return &budget{left: b}
}

// slowNet: every byte is expensive to simulate with this network.
func slowNet(s *Scenario) bool {
	n := s.Net
	return n.SegMax > 0 && n.SegMax < 100 || n.ReadMax > 0 && n.ReadMax < 100 || n.InflightCap > 0 && n.InflightCap <= 4096 && n.LatencyNs > 0 || s.Client.WriteBuf == 1
}

func (b *budget) take(n int) int {
	if n > b.left {
		n = b.left
	}
	if n < 0 {
		n = 0
	}
	b.left -= n
	return n
}

func genSize(r *core.Rand, window int) int {
	if window < 1 {
		window = 1
	}
	switch r.Intn(10) {
	case 0:
		return 0
	case 1:
		return r.Range(1, 20)
	case 2:
		return 16384 - 5 + r.Range(-2, 2)
	case 3:
		return max(0, window-5+r.Range(-2, 2))
	case 4:
		return r.Range(window, 4*window)
	case 5:
		return 16384*r.Range(1, 4) + r.Range(-6, 1)
	default:
		return r.LogUniform(1, 2*window+100)
	}
}

func genGrant(r *core.Rand) Grant {
	g := Grant{Mode: core.Pick(r, "echo", "echo", "chunk", "ones", "exhaust", "dribble", "none")}
	switch g.Mode {
	case "chunk":
		g.K = r.LogUniform(1, 1<<20)
	case "exhaust":
		g.K = core.Pick(r, 0, 0, 1, 1000, 1<<20)
	case "dribble":
		g.K = r.LogUniform(1, 70000)
	}
	if r.Chance(1, 3) {
		g.DelayNs = int64(core.Pick(r, 1, 1000, 1000000, 30000000))
	}
	return g
}

func genPeerIWS(r *core.Rand) int64 {
	switch r.Intn(8) {
	case 0:
		return -1
	case 1:
		return int64(core.Pick(r, 0, 1, 2, 5))
	case 2:
		return int64(core.Pick(r, 16383, 16384, 16385, 65535, 65536))
	case 3:
		return 1 << 20
	default:
		return int64(r.LogUniform(1, 1<<20))
	}
}

func effIWS(v int64) int {
	if v < 0 {
		return 65535
	}
	return int(v)
}

// genFlowRPCs builds client->peer traffic: every RPC streams messages to the
// peer, which consumes them and finishes the stream in one of several ways.
func genFlowRPCs(r *core.Rand, tier string, s *Scenario, b *budget, n int, win int, hostileEnds bool) {
	maxMsgs := 4
	if tier == "thorough" {
		maxMsgs = 7
	}
	for i := 0; i < n; i++ {
		rpc := RPC{ID: uint32(i + 1), StartNs: int64(r.Intn(3)) * int64(r.Intn(2000000))}
		nm := r.Range(1, maxMsgs)
		total := 0
		nap := func() Op { return Op{Op: "sleep", Ns: int64(core.Pick(r, 1000, 1000000, 20000000, 500000000))} }
		if r.Chance(1, 4) {
			rpc.Client = append(rpc.Client, nap()) // the stream exists before it has anything to send
		}
		for k := 0; k < nm; k++ {
			sz := b.take(genSize(r, win))
			total += sz + 5
			rpc.Client = append(rpc.Client, Op{Op: "send", N: sz})
			if r.Chance(1, 5) {
				rpc.Client = append(rpc.Client, nap())
			}
		}
		if r.Chance(4, 5) {
			rpc.Client = append(rpc.Client, Op{Op: "close_send"})
		}
		if r.Chance(1, 6) {
			at := r.Intn(len(rpc.Client) + 1)
			ops := append([]Op{}, rpc.Client[:at]...)
			ops = append(ops, nap(), Op{Op: "cancel"})
			rpc.Client = append(ops, rpc.Client[at:]...)
		}
		rpc.Client = append(rpc.Client, Op{Op: "recv_all"})
		if r.Chance(1, 8) {
			rpc.DeadlineNs = int64(core.Pick(r, 1000000, 30000000, 3000000000, 60000000000))
		}
		var srv []SOp
		if r.Chance(1, 4) {
			srv = append(srv, SOp{Op: "grant", N: r.LogUniform(1, 1<<20)}) // update before the stream ever waits
		}
		if r.Chance(1, 2) {
			srv = append(srv, SOp{Op: "headers"})
		}
		end := r.Intn(10)
		if !hostileEnds && end >= 7 {
			end = 0
		}
		switch {
		case end < 7:
			srv = append(srv, SOp{Op: "recv_all"})
			if r.Chance(1, 3) {
				srv = append(srv, SOp{Op: "send", N: r.Range(0, 2000)})
			}
			srv = append(srv, SOp{Op: "trailers", Code: core.Pick(r, 0, 0, 0, 3, 13)})
		case end == 7: // RST in the middle of a message
			srv = append(srv, SOp{Op: "wait_bytes", N: r.Range(1, max(total-1, 1))}, SOp{Op: "rst", Code: core.Pick(r, 0, 2, 7, 8, 11)})
		case end == 8: // trailers in the middle of a message
			srv = append(srv, SOp{Op: "wait_bytes", N: r.Range(1, max(total-1, 1))}, SOp{Op: "trailers", Code: core.Pick(r, 0, 5, 8)})
		default: // never answers
			srv = append(srv, SOp{Op: "hang"})
			if rpc.DeadlineNs == 0 {
				rpc.DeadlineNs = int64(core.Pick(r, 50000000, 3000000000, 20000000000))
			}
		}
		rpc.Server = [][]SOp{srv}
		s.RPCs = append(s.RPCs, rpc)
	}
}

// genWindowActions: adversarial SETTINGS / WINDOW_UPDATE timeline.
func genWindowActions(r *core.Rand, s *Scenario, nr int, n int, horizon int64, checks bool) {
	for i := 0; i < n; i++ {
		at := int64(r.LogUniform(1000, int(horizon)))
		var a Action
		switch r.Intn(8) {
		case 0, 1: // stream update, often for a stream that is not waiting (or closed)
			a = act(at, "wupd")
			a.RPC = uint32(r.Range(1, nr))
			a.Inc = int64(core.Pick(r, 1, 1, 2, 100, 16384, 65535, 1<<20, r.LogUniform(1, 1<<20)))
			a.Count = core.Pick(r, 1, 1, 1, 3, 20)
		case 2: // connection update
			a = act(at, "wupd")
			a.Inc = int64(core.Pick(r, 1, 1, 100, 65535, 1<<20, r.LogUniform(1, 1<<20)))
			a.Count = core.Pick(r, 1, 1, 5, 30)
		case 3, 4: // raise or lower the initial window
			a = act(at, "settings")
			a.IWS = genPeerIWS(r)
			if a.IWS < 0 {
				a.IWS = 65535
			}
		case 5:
			a = act(at, "settings")
			a.MFS = int64(core.Pick(r, 16384, 16385, 1<<20, 1<<24-1))
			if r.Chance(1, 2) {
				a.HTS = int64(core.Pick(r, 0, 100, 4096, 65536))
			}
		case 6:
			a = act(at, "grant_all")
			a.Inc = int64(r.LogUniform(1, 1<<20))
		case 7:
			a = act(at, core.Pick(r, "ping", "read_stall", "write_stall"))
			a.DurNs = int64(r.LogUniform(1000, 20000000))
			a.Tag = i
		}
		s.Actions = append(s.Actions, a)
		if checks {
			s.Actions = append(s.Actions, act(at+int64(core.Pick(r, 1, 1000, 1000000)), "check"))
		}
	}
}

func sortActions(s *Scenario) {
	sort.SliceStable(s.Actions, func(i, j int) bool { return s.Actions[i].AtNs < s.Actions[j].AtNs })
}

// finale releases everything that is still starved so that most RPCs finish
// by themselves (the rest end on their deadline).
func finale(r *core.Rand, s *Scenario, at int64) {
	a := act(at, "settings")
	a.IWS = 1 << 20
	s.Actions = append(s.Actions, a)
	g := act(at+1000, "grant_all")
	g.Inc = 1 << 22
	s.Actions = append(s.Actions, g)
	s.Actions = append(s.Actions, act(at+2000000, "check"))
}

func genFlow(seed uint64, tier string, flavor string) *Scenario {
	r, s := genBase(seed, tier, true)
	p := &s.Peer
	p.IWS = genPeerIWS(r)
	p.MFS = int64(core.Pick(r, -1, -1, 16384, 20000, 1<<20))
	p.ConnGrant0 = core.Pick(r, 0, 0, 0, 1, 100000, 4<<20)
	p.SGrant = genGrant(r)
	p.CGrant = genGrant(r)
	if r.Chance(1, 2) {
		p.CGrant = Grant{} // the connection window is not the bottleneck
	}
	if flavor == "live" && r.Chance(1, 3) {
		p.SGrant = Grant{Mode: "none"} // only the scripted updates grant credit
	}
	p.CheckRecv = true
	p.AckDelayNs = int64(core.Pick(r, 0, 0, 1000, 5000000))
	n := r.Range(1, 6)
	if tier == "thorough" {
		n = r.Range(1, 12)
	}
	horizon := int64(core.Pick(r, 5000000, 100000000, 2000000000))
	genWindowActions(r, s, n, r.Range(0, 8), horizon, flavor == "live")
	// the number of DATA frames (round trips with a stingy peer) is what makes a
	// run expensive: bound bytes by frames * the smallest chunk the peer allows
	unit := 16384
	lower := func(v int64) {
		if v >= 1 && int(v) < unit {
			unit = int(v)
		}
	}
	lower(int64(effIWS(p.IWS)))
	for _, a := range s.Actions {
		if a.Kind == "settings" {
			lower(a.IWS)
		}
	}
	for _, g := range []Grant{p.SGrant, p.CGrant} {
		if g.Mode == "dribble" || g.Mode == "exhaust" {
			lower(int64(g.K))
		}
	}
	frames := 1500
	if tier == "thorough" {
		frames = 4000
	}
	b := newBudget(s, tier)
	if x := frames * unit; x < b.left {
		b.left = x
	}
	genFlowRPCs(r, tier, s, b, n, effIWS(p.IWS), flavor != "live")
	if r.Chance(3, 4) {
		finale(r, s, horizon+int64(r.Intn(50000000)))
	}
	return s
}

// C01wt: the window ledger against the adversarial peer.
func genC01wt(seed uint64, tier string) *Scenario {
	s := genFlow(seed, tier, "windows")
	r := core.NewRand(core.Mix(seed, 77))
	s.Oracles = []string{"windows"}
	if r.Chance(1, 4) {
		genFaults(r, s, "stall", "cut_after")
	}
	sortActions(s)
	return s
}

// C02wt: the byte/stream ledger against the adversarial peer.
func genC02wt(seed uint64, tier string) *Scenario {
	s := genFlow(seed, tier, "bytes")
	r := core.NewRand(core.Mix(seed, 78))
	s.Oracles = []string{"bytes", "streams"}
	s.Client.DisableRetry = r.Chance(1, 2)
	if r.Chance(1, 3) {
		genFaults(r, s, "stall", "cut_after", "reset", "half_close")
	}
	if r.Chance(1, 8) {
		a := act(int64(r.LogUniform(1000, 1000000000)), core.Pick(r, "close", "kill"))
		s.Actions = append(s.Actions, a)
	}
	sortActions(s)
	return s
}

func genFaults(r *core.Rand, s *Scenario, kinds ...string) {
	n := r.Range(1, 2)
	for i := 0; i < n; i++ {
		k := core.Pick(r, kinds...)
		f := simnet.Fault{Kind: k, Conn: 0, Dir: core.Pick(r, "c2s", "s2c", "both")}
		switch k {
		case "cut_after":
			f.Dir = core.Pick(r, "c2s", "s2c")
			f.Bytes = r.LogUniform(1, 300000)
		case "reset", "half_close", "blackhole":
			f.AtNs = int64(r.LogUniform(1, 3000000000))
		case "stall":
			f.AtNs = int64(r.LogUniform(1, 100000000))
			f.DurNs = int64(r.LogUniform(1000, 5000000000))
		}
		s.Faults = append(s.Faults, f)
		if k == "blackhole" && r.Chance(1, 2) {
			s.Faults = append(s.Faults, simnet.Fault{Kind: "heal", Conn: 0, Dir: "both", AtNs: f.AtNs + int64(r.LogUniform(1000, 2000000000))})
		}
	}
}

// C03: liveness at quiescence + round robin in quiet-peer phases.
// genBoundary: streams whose window is used up EXACTLY at a message boundary
// (first message = stream window - 5 bytes of payload, so the writer sees the
// stream as idle, not as waiting for window) queue another message while a
// stream with a large window is in the middle of a big message; the zero-window
// streams are therefore taken from the writer's round-robin list with no quota
// at all, in between the big sender's turns. The peer then stays silent (no
// WINDOW_UPDATE, PING, SETTINGS) and nothing else is written by the
// application, so whatever the writer does with the zero-window streams, only
// its own bookkeeping can keep the big stream going. Variant: the window is
// lowered to what is outstanding (or below) while the streams are active.
func genBoundary(seed uint64, tier string) *Scenario {
	r, s := genBase(seed, tier, false)
	s.Oracles = []string{"live", "windows"}
	if slowNet(s) {
		s.Net = simnet.Cfg{Seed: core.Mix(seed, 21), SegMax: core.Pick(r, 0, 1000, 20000)}
		s.Client.WriteBuf = 0
	}
	s.Net.LatencyNs = int64(core.Pick(r, 0, 0, 1000, 100000))
	p := &s.Peer
	p.SGrant = Grant{Mode: "none"}
	p.CGrant = Grant{Mode: "none"}
	W := core.Pick(r, 5, 6, 100, 1000, 16384, 16389, 65535, 65535, 70000)
	p.IWS = int64(W)
	if W == 65535 && r.Chance(1, 2) {
		p.IWS = -1 // the default window
	}
	p.ConnGrant0 = 16 << 20
	// with back-pressure and a reader that pauses, the writer blocks in the
	// middle of the big message while the small ones are queued
	stall := r.Chance(1, 2)
	if stall {
		s.Net.InflightCap = core.Pick(r, 4096, 100000)
	}
	t0 := int64(r.Intn(3)) * int64(r.Intn(1000000))
	t1 := t0 + int64(core.Pick(r, 2000000, 10000000, 300000000))
	k := r.Range(2, 7)
	big := r.Range(100000, 1500000)
	if tier == "thorough" {
		big = r.Range(100000, 4<<20)
	}
	lower := r.Chance(1, 4) // variant (b): SETTINGS lowers the window instead
	id := uint32(0)
	for i := 0; i < k; i++ {
		id++
		rpc := RPC{ID: id, StartNs: t0 + int64(r.Intn(2))*int64(r.Intn(100000))}
		first := W - 5
		if lower {
			first = r.Range(0, max(W-6, 0)) // window left: the SETTINGS takes it away
		}
		rpc.Client = []Op{{Op: "send", N: first}, {Op: "sleep", Ns: t1 - rpc.StartNs + int64(core.Pick(r, 0, 0, 0, 1000, 50000))}, {Op: "send", N: r.Range(0, 200)}, {Op: "sleep", Ns: 3000000000}, {Op: "cancel"}, {Op: "recv_all"}}
		rpc.Server = [][]SOp{{{Op: "hang"}}}
		s.RPCs = append(s.RPCs, rpc)
	}
	nbig := core.Pick(r, 1, 1, 2)
	for i := 0; i < nbig; i++ {
		id++
		rpc := RPC{ID: id, StartNs: t0}
		rpc.Client = []Op{{Op: "sleep", Ns: t1 - t0 + int64(core.Pick(r, 0, 0, 0, 1000))}, {Op: "send", N: big / nbig}, {Op: "close_send"}, {Op: "recv_all"}}
		srv := []SOp{{Op: "grant", N: 8 << 20}}
		if stall && i == 0 {
			srv = append(srv, SOp{Op: "wait_bytes", N: 1}, SOp{Op: "read_stall", Ns: int64(core.Pick(r, 1000000, 50000000))})
		}
		srv = append(srv, SOp{Op: "recv_all"}, SOp{Op: "trailers"})
		rpc.Server = [][]SOp{srv}
		s.RPCs = append(s.RPCs, rpc)
	}
	if lower {
		a := act(t1-int64(core.Pick(r, 0, 1000, 1000000)), "settings")
		a.IWS = int64(core.Pick(r, 0, 0, 1, W/2))
		s.Actions = append(s.Actions, a)
		// the big senders keep their credit: their extra grant is far above W
	}
	for _, at := range []int64{t1 + 200000000, t1 + 1500000000} {
		s.Actions = append(s.Actions, act(at, "check"))
	}
	sortActions(s)
	return s
}

func genC03(seed uint64, tier string) *Scenario {
	r0 := core.NewRand(core.Mix(seed, 79))
	if r0.Chance(2, 5) {
		return genFair(seed, tier)
	}
	if r0.Chance(1, 3) {
		return genBoundary(seed, tier)
	}
	s := genFlow(seed, tier, "live")
	s.Oracles = []string{"live", "windows"}
	s.Net.StallPct = 0
	sortActions(s)
	return s
}

// genFair: several streams with pending data, then the peer grants ample
// credit in one go, sends a fence PING and stays silent.
func genFair(seed uint64, tier string) *Scenario {
	r, s := genBase(seed, tier, false)
	s.Oracles = []string{"live", "fair", "windows"}
	p := &s.Peer
	p.SGrant = Grant{Mode: "none"}
	p.CGrant = Grant{Mode: "none"}
	mode := r.Intn(3)
	switch mode {
	case 0: // stream windows are the bottleneck
		p.IWS = int64(core.Pick(r, 0, 1, 10, 1000, 20000))
		p.ConnGrant0 = 8 << 20
	case 1: // the connection window is the bottleneck
		p.IWS = 1 << 20
	default: // both
		p.IWS = int64(core.Pick(r, 0, 5, 5000))
	}
	n := r.Range(2, 6)
	if tier == "thorough" {
		n = r.Range(2, 10)
	}
	heavy := slowNet(s)
	if heavy {
		n = r.Range(2, 3)
	}
	if s.Net.InflightCap > 0 && s.Net.InflightCap <= 4096 && s.Net.LatencyNs > 0 {
		s.Net.LatencyNs = 0
	}
	t1 := int64(r.Range(3000000, 6000000))
	for i := 0; i < n; i++ {
		rpc := RPC{ID: uint32(i + 1), StartNs: int64(r.Intn(2)) * int64(r.Intn(1000000))}
		if r.Chance(1, 6) {
			rpc.StartNs = t1 + int64(r.Intn(3000000)) // joins during the quiet phase
		}
		nm := r.Range(1, 2)
		if heavy {
			nm = 1
		}
		for k := 0; k < nm; k++ {
			sz := r.Range(35000, 150000)
			if heavy {
				sz = r.Range(33000, 40000)
			}
			rpc.Client = append(rpc.Client, Op{Op: "send", N: sz})
		}
		if r.Chance(1, 6) {
			rpc.Client = append(rpc.Client, Op{Op: "sleep", Ns: t1 - rpc.StartNs + int64(r.Intn(2000000))}, Op{Op: "cancel"})
		}
		rpc.Client = append(rpc.Client, Op{Op: "close_send"}, Op{Op: "recv_all"})
		rpc.Server = [][]SOp{{{Op: "recv_all"}, {Op: "trailers"}}}
		s.RPCs = append(s.RPCs, rpc)
	}
	s.Actions = append(s.Actions, act(t1-1000000, "check"))
	at := t1
	if mode != 1 {
		a := act(at, "settings")
		a.IWS = 1 << 20
		s.Actions = append(s.Actions, a)
		at += 1000
	}
	if mode != 0 {
		a := act(at, "wupd")
		a.Inc = 8 << 20
		s.Actions = append(s.Actions, a)
		at += 1000
	}
	f := act(at, "fence")
	f.Tag = 1
	s.Actions = append(s.Actions, f)
	s.Actions = append(s.Actions, act(at+20000000, "check"))
	sortActions(s)
	return s
}

// C13: MAX_CONCURRENT_STREAMS.
// genChurn: a storm of short RPCs against a small limit: every completion
// hands a slot to a waiter while other callers are between their failed
// admission check and the wait, which is where a wake-up can get lost.
func genChurn(seed uint64, tier string) *Scenario {
	r, s := genBase(seed, tier, false)
	s.Oracles = []string{"mcs", "quota"}
	s.Sched.YieldThr = core.Pick(r, uint32(700), 2000, 6500, 20000)
	s.Net = simnet.Cfg{Seed: core.Mix(seed, 21)}
	s.Client.WriteBuf, s.Client.ReadBuf = 0, 0
	s.Peer.MCS = int64(core.Pick(r, 1, 2, 2, 3, 4))
	n := r.Range(4, 16)
	short := int64(core.Pick(r, 0, 1000, 1000, 50000))
	long := int64(core.Pick(r, 300000000, 1000000000))
	gens := core.Pick(r, 1, 1, 2, 3)
	for i := 0; i < n; i++ {
		rpc := RPC{ID: uint32(i + 1), StartNs: int64(core.Pick(r, 0, 0, 0, 1000, 2000)), DeadlineNs: 5000000000}
		if r.Chance(1, 3) {
			rpc.StartNs = short * int64(r.Range(1, gens)) // arrives at the instant earlier streams finish
		}
		rpc.Client = []Op{{Op: "close_send"}, {Op: "recv_all"}}
		// the streams admitted first all finish at the same instant, the ones
		// admitted after them stay open: a waiter that missed its wake-up then
		// waits although a slot is free
		rpc.Server = [][]SOp{{{Op: "sleep", Ns: short, FirstK: int(s.Peer.MCS) * gens, Ns2: long}, {Op: "trailers"}}}
		s.RPCs = append(s.RPCs, rpc)
	}
	for _, at := range []int64{100000, 1000000, 100000000, 2000000000} {
		s.Actions = append(s.Actions, act(at, "check"))
	}
	return s
}

// genHandover: the exact shape in which a wake-up token can get lost: the
// limit is m, exactly m streams are open and all finish at the same virtual
// instant T, and at that very instant 2..m+1 new RPCs call NewStream. A caller
// that has failed the admission check but is not yet parked on the wake-up
// channel misses the second of two back-to-back completions; it then depends on
// the admitted caller passing the token on. The streams admitted at T are
// long-lived, so a forgotten waiter stays blocked with a free slot until the
// quiescent points at T+1 ms and T+100 ms.
func genHandover(seed uint64, tier string) *Scenario {
	r, s := genBase(seed, tier, false)
	s.Oracles = []string{"mcs", "quota"}
	s.Sched.YieldThr = core.Pick(r, uint32(20000), 30000, 45000, 60000)
	s.Net = simnet.Cfg{Seed: core.Mix(seed, 21)}
	s.Client.WriteBuf, s.Client.ReadBuf = 0, 0
	m := r.Range(2, 3)
	s.Peer.MCS = int64(m)
	T := int64(core.Pick(r, 1000, 50000, 1000000))
	long := int64(core.Pick(r, 500000000, 2000000000))
	hold := SOp{Op: "sleep", Ns: T, FirstK: m, Ns2: long}
	fin := core.Pick(r, SOp{Op: "trailers"}, SOp{Op: "trailers"}, SOp{Op: "rst", Code: 8})
	id := uint32(0)
	add := func(start int64, n int) {
		for i := 0; i < n; i++ {
			id++
			rpc := RPC{ID: id, StartNs: start, DeadlineNs: 10000000000}
			rpc.Client = []Op{{Op: "close_send"}, {Op: "recv_all"}}
			rpc.Server = [][]SOp{{hold, fin}}
			s.RPCs = append(s.RPCs, rpc)
		}
	}
	add(0, m) // fill the limit
	if r.Chance(1, 2) {
		// variant: the waiters are parked already; at T the limit is raised by one
		// (all of them are woken at once and re-check) while all open streams
		// finish: the waiters that lose the race for the new slot are on their
		// way back to the wake-up channel when two completions arrive
		add(0, r.Range(3, m+1))
		a := act(T, "settings")
		a.MCS = int64(m + 1)
		s.Actions = append(s.Actions, a)
		for _, at := range []int64{T + 1000000, T + 100000000} {
			s.Actions = append(s.Actions, act(at, "check"))
		}
		return s
	}
	add(T, r.Range(2, m+1)) // arrive exactly when all of them finish
	if r.Chance(1, 3) {
		add(T+long, r.Range(2, m+1)) // and once more when the second generation finishes
	}
	for _, at := range []int64{T + 1000000, T + 100000000, T + long + 100000000} {
		s.Actions = append(s.Actions, act(at, "check"))
	}
	return s
}

// genCycles repeats the hand-over situation several times in one run: every
// period P all L open streams finish at the same instant; shortly before, the
// limit was lowered by one and three more RPCs have parked; at the instant the
// streams finish the limit goes back to L, which wakes all parked callers at
// once: they re-check (no slot yet), and are on their way back to the wake-up
// channel while the completions arrive. Streams admitted then live until the
// next period. A quiescent point a quarter period later sees a forgotten waiter.
func genCycles(seed uint64, tier string) *Scenario {
	r, s := genBase(seed, tier, false)
	s.Oracles = []string{"mcs", "quota"}
	// the window is a single scheduling point (between the failed admission
	// check and the select): yield there almost always
	s.Sched.YieldThr = core.Pick(r, uint32(30000), 45000, 55000, 62000)
	s.Net = simnet.Cfg{Seed: core.Mix(seed, 21)}
	s.Client.WriteBuf, s.Client.ReadBuf = 0, 0
	L := r.Range(2, 4)
	s.Peer.MCS = int64(L)
	P := int64(core.Pick(r, 100000, 1000000, 20000000))
	cycles := r.Range(3, 8)
	if tier == "thorough" {
		cycles = r.Range(4, 14)
	}
	burst := r.Chance(2, 3)
	id := uint32(0)
	add := func(start int64, n int) {
		for i := 0; i < n; i++ {
			id++
			rpc := RPC{ID: id, StartNs: start, DeadlineNs: int64(cycles+3) * P}
			rpc.Client = []Op{{Op: "close_send"}, {Op: "recv_all"}}
			if burst {
				rpc.Server = [][]SOp{{{Op: "hang"}}} // finished by the peer's finish_all action
			} else {
				rpc.Server = [][]SOp{{{Op: "sleep_to_grid", Ns: P}, {Op: core.Pick(r, "trailers", "trailers", "end_data")}}}
			}
			s.RPCs = append(s.RPCs, rpc)
		}
	}
	add(0, L)
	for c := int64(1); c <= int64(cycles); c++ {
		lower := act(c*P-P/2, "settings")
		lower.MCS = int64(L - 1)
		raise := act(c*P, "settings")
		if burst {
			raise.Kind = "finish_all" // SETTINGS first, then all trailers, in one burst
		}
		raise.MCS = int64(L)
		s.Actions = append(s.Actions, lower, raise, act(c*P+P/4, "check"))
		add(c*P-P/4, r.Range(2, L)) // park: no slot while the limit is lowered
	}
	sortActions(s)
	return s
}

func genC13(seed uint64, tier string) *Scenario {
	switch core.NewRand(core.Mix(seed, 81)).Intn(5) {
	case 0:
		return genChurn(seed, tier)
	case 1:
		return genHandover(seed, tier)
	case 2, 3:
		return genCycles(seed, tier)
	}
	r, s := genBase(seed, tier, true)
	s.Oracles = []string{"mcs", "quota"}
	p := &s.Peer
	p.MCS = int64(core.Pick(r, 0, 1, 1, 2, 3, 5, -1))
	n := r.Range(2, 10)
	if tier == "thorough" {
		n = r.Range(2, 16)
	}
	horizon := int64(core.Pick(r, 2000000, 50000000, 1000000000))
	burstAt := []int64{0, int64(r.Intn(int(horizon)))}
	for i := 0; i < n; i++ {
		rpc := RPC{ID: uint32(i + 1)}
		if r.Chance(2, 3) {
			rpc.StartNs = core.Pick(r, burstAt...) // bursts of NewStream from many goroutines
		} else {
			rpc.StartNs = int64(r.Intn(int(horizon)))
		}
		if r.Chance(1, 2) {
			rpc.Client = append(rpc.Client, Op{Op: "send", N: r.Range(0, 3000)})
		}
		var srv []SOp
		hold := int64(core.Pick(r, 0, 1000, 1000000, 30000000, 300000000))
		switch r.Intn(8) {
		case 0, 1, 2: // normal completion
			rpc.Client = append(rpc.Client, Op{Op: "close_send"}, Op{Op: "recv_all"})
			srv = []SOp{{Op: "recv_all"}, {Op: "sleep", Ns: hold}, {Op: "trailers", Code: core.Pick(r, 0, 0, 5)}}
		case 3: // server finishes while the client is still sending: client RST
			rpc.Client = append(rpc.Client, Op{Op: "recv_all"})
			srv = []SOp{{Op: "sleep", Ns: hold}, {Op: "trailers", Code: core.Pick(r, 0, 9)}}
		case 4: // RST by the server
			rpc.Client = append(rpc.Client, Op{Op: "recv_all"})
			srv = []SOp{{Op: "sleep", Ns: hold}, {Op: "rst", Code: core.Pick(r, 2, 7, 8)}}
		case 5: // cancel by the client
			rpc.Client = append(rpc.Client, Op{Op: "sleep", Ns: hold}, Op{Op: "cancel"}, Op{Op: "recv_all"})
			srv = []SOp{{Op: "hang"}}
		case 6: // deadline
			rpc.Client = append(rpc.Client, Op{Op: "recv_all"})
			rpc.DeadlineNs = hold + int64(r.Range(1, 50000000))
			srv = []SOp{{Op: "hang"}}
		default: // END_STREAM without trailers
			rpc.Client = append(rpc.Client, Op{Op: "close_send"}, Op{Op: "recv_all"})
			srv = []SOp{{Op: "headers"}, {Op: "sleep", Ns: hold}, {Op: "end_data"}}
		}
		if rpc.DeadlineNs == 0 && r.Chance(1, 6) {
			rpc.DeadlineNs = int64(core.Pick(r, 1000000, 100000000, 5000000000)) // may expire while waiting for quota
		}
		rpc.Server = [][]SOp{srv}
		s.RPCs = append(s.RPCs, rpc)
	}
	na := r.Range(0, 5)
	for i := 0; i < na; i++ {
		at := int64(r.LogUniform(1000, int(horizon)+400000000))
		a := act(at, "settings")
		a.MCS = int64(core.Pick(r, 0, 0, 1, 1, 2, 3, 8, 100))
		s.Actions = append(s.Actions, a, act(at+int64(core.Pick(r, 1, 100000, 5000000)), "check"))
	}
	for i := 0; i < 12; i++ {
		s.Actions = append(s.Actions, act(int64(r.LogUniform(1000, int(horizon)+400000000)), "check"))
	}
	if r.Chance(1, 6) {
		g := act(int64(r.LogUniform(1000, int(horizon))), "goaway")
		g.Last = int64(core.Pick(r, -1, -3, 1))
		s.Actions = append(s.Actions, g)
	}
	if r.Chance(1, 10) {
		s.Actions = append(s.Actions, act(int64(r.LogUniform(1000, int(horizon))), "close"))
	}
	// finally lift the limit so that waiting RPCs get through
	a := act(horizon+500000000, "settings")
	a.MCS = 1000
	s.Actions = append(s.Actions, a, act(horizon+600000000, "check"))
	sortActions(s)
	return s
}

// C14wt: GOAWAY racing with new and in-flight RPCs.
func genC14wt(seed uint64, tier string) *Scenario {
	r, s := genBase(seed, tier, false)
	s.Oracles = []string{"goaway", "mcs"}
	s.Client.DisableRetry = r.Chance(1, 6)
	p := &s.Peer
	p.MCS = int64(core.Pick(r, -1, -1, 1, 2, 4))
	n := r.Range(1, 8)
	if tier == "thorough" {
		n = r.Range(1, 14)
	}
	tg := int64(core.Pick(r, 100000, 2000000, 30000000))
	for i := 0; i < n; i++ {
		rpc := RPC{ID: uint32(i + 1)}
		switch r.Intn(3) {
		case 0:
			rpc.StartNs = int64(r.Intn(int(tg)))
		case 1: // races with the GOAWAY
			rpc.StartNs = tg + int64(r.Range(-20000, 3000000))
			if rpc.StartNs < 0 {
				rpc.StartNs = 0
			}
		default:
			rpc.StartNs = int64(r.Intn(int(3 * tg)))
		}
		if r.Chance(1, 2) {
			rpc.Client = append(rpc.Client, Op{Op: "send", N: r.Range(0, 40000)})
		}
		if r.Chance(1, 2) {
			rpc.Client = append(rpc.Client, Op{Op: "close_send"})
		}
		rpc.Client = append(rpc.Client, Op{Op: "recv_all"})
		hold := int64(core.Pick(r, 0, 1000, 500000, 5000000, 100000000))
		var srv []SOp
		if r.Chance(1, 3) {
			srv = append(srv, SOp{Op: "headers"})
		}
		srv = append(srv, SOp{Op: "sleep", Ns: hold})
		if r.Chance(1, 3) {
			srv = append(srv, SOp{Op: "send", N: r.Range(0, 5000)})
		}
		srv = append(srv, SOp{Op: "trailers", Code: core.Pick(r, 0, 0, 3, 5, 14)})
		rpc.Server = [][]SOp{srv}
		if r.Chance(1, 8) {
			rpc.DeadlineNs = int64(core.Pick(r, 1000000, 50000000, 2000000000))
		}
		s.RPCs = append(s.RPCs, rpc)
	}
	g := act(tg, "goaway")
	g.Last = int64(core.Pick(r, -1, -1, -2, -3, 0, 1, 3, 5, 7, 4, 1001))
	g.Code = core.Pick(r, 0, 0, 0, 11, 2)
	if g.Code == 11 && r.Chance(1, 2) {
		g.Debug = "too_many_pings"
	}
	s.Actions = append(s.Actions, g)
	if r.Chance(1, 2) {
		g2 := act(tg+int64(core.Pick(r, 0, 1000, 1000000, 20000000)), "goaway")
		g2.Last = int64(core.Pick(r, -1, -1, 0, 1, 3, 5, 9, 1003, -3))
		s.Actions = append(s.Actions, g2)
	}
	s.Actions = append(s.Actions, act(tg+200000000, "check"))
	sortActions(s)
	return s
}

func simnetFault(kind string, conn int) simnet.Fault { return simnet.Fault{Kind: kind, Conn: conn} }

func init() {
	core.Register("C01wt", genC01wt, Run)
	core.Register("C02wt", genC02wt, Run)
	core.Register("C03wt", genC03, Run)
	core.Register("C17wt", genC17wt, Run)
	core.Register("C13", genC13, Run)
	core.Register("C14wt", genC14wt, Run)
}

// C17wt: the stream-quota clause of C17 ("a NewStream call waiting for stream
// quota is woken whenever quota becomes available"): the shapes of C13 in which
// callers wait for a slot while slots are handed back, judged by the "quota"
// oracle (waiting_for_stream_quota_below_limit at quiescent points).
func genC17wt(seed uint64, tier string) *Scenario {
	switch core.NewRand(core.Mix(seed, 83)).Intn(5) {
	case 0:
		return genChurn(seed, tier)
	case 1, 2:
		return genHandover(seed, tier)
	}
	return genCycles(seed, tier)
}
