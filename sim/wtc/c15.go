package wtc

import (
	"sort"
	"time"

	"google.golang.org/grpc/internal/zzverif/core"
	"google.golang.org/grpc/internal/zzverif/simnet"
)

// ---- C15 (client half): keepalive under virtual time ----

type span struct{ a, b time.Time } // [a, b); b zero = still open

// applicable returns the periods in which keepalive applies to a connection.
func (w *run) kaApplicable(v *cview, end time.Time) []span {
	if w.sc.Client.KAPermit {
		return []span{{v.prefaceAt, end}}
	}
	var ev []span
	for _, id := range v.order {
		s := v.streams[id]
		b := s.closedAt
		if b.IsZero() || b.After(end) {
			b = end
		}
		a := s.hdrAt
		if a.Before(v.prefaceAt) {
			a = v.prefaceAt
		}
		if b.After(a) {
			ev = append(ev, span{a, b})
		}
	}
	sort.Slice(ev, func(i, j int) bool { return ev[i].a.Before(ev[j].a) })
	var out []span
	for _, x := range ev {
		if n := len(out); n > 0 && !x.a.After(out[n-1].b) {
			if x.b.After(out[n-1].b) {
				out[n-1].b = x.b
			}
			continue
		}
		out = append(out, x)
	}
	return out
}

func c15End(w *run) {
	if !w.sc.has("keepalive") {
		return
	}
	e := w.e
	T := time.Duration(w.sc.Client.KATimeNs)
	To := time.Duration(w.sc.Client.KATimeoutNs)
	const slack = 10 * time.Millisecond
	for _, idx := range w.viewIdx() {
		v := w.views[idx]
		sp := w.spies[idx]
		if v.prefaceAt.IsZero() || sp == nil {
			continue
		}
		end := w.closingAt
		closed := sp.closed && sp.closedAt.Before(w.closingAt)
		if closed {
			end = sp.closedAt
			e.Probe("keepalive_closed_connection")
		} else {
			e.Probe("connection_survived")
		}
		app := w.kaApplicable(v, end)
		// (a) every silent gap: (prev, next) where next is a delivery or the end of the observation
		rx := append([]time.Time{}, v.rx...)
		pts := append(rx, end)
		prev := v.prefaceAt
		for _, t := range pts {
			if t.After(end) {
				t = end
			}
			if t.After(prev) {
				for pi, p := range app {
					start := prev.Add(T)
					if p.a.After(start) {
						start = p.a
					}
					bound := start.Add(To)
					// keepalive applicable from start through bound, and the connection was still open after bound
					if !start.Before(p.a) && !bound.After(p.b) && t.After(bound.Add(slack)) {
						// separate name when something was received while keepalive was
						// not applicable (dormant) just before this period: see the
						// known finding about stale activity after dormancy
						name := "dead_peer_not_detected"
						for _, x := range rx {
							if x.Before(p.a) && (pi == 0 && x.After(v.prefaceAt) || pi > 0 && x.After(app[pi-1].b)) {
								name = "dead_peer_detection_delayed_after_dormancy"
							}
						}
						e.Violate(name, "conn %d: nothing was received between %v and %v; keepalive (Time %v, Timeout %v) was applicable from %v, so the connection had to be closed by %v, but it was still open at %v", idx, prev.Sub(w.t0), t.Sub(w.t0), T, To, start.Sub(w.t0), bound.Sub(w.t0), t.Sub(w.t0))
						break
					}
					if !bound.After(p.b) && !t.Before(bound) {
						e.Probe("keepalive_deadline_reached")
					}
				}
			}
			if t.After(prev) {
				prev = t
			}
		}
		if !closed {
			continue
		}
		// (b) a connection that received something at least every Time is never closed
		healthy := true
		prev = v.prefaceAt
		for _, t := range append(rx, end) {
			if t.After(end) {
				break
			}
			if t.Sub(prev) > T {
				healthy = false
			}
			prev = t
		}
		if healthy {
			e.Violate("healthy_connection_closed", "conn %d: the client closed the connection at %v although no gap between received frames exceeded Time (%v)", idx, end.Sub(w.t0), T)
		}
		// (b') documented behaviour (keepalive.ClientParameters): closed only if no
		// activity is seen for Timeout after the ping
		for _, t := range rx {
			if t.After(end.Add(-To).Add(slack)) && t.Before(end.Add(-slack)) {
				e.Violate("closed_despite_activity_within_timeout", "conn %d: the client closed the connection at %v although a frame had been received at %v, less than Timeout (%v) earlier", idx, end.Sub(w.t0), t.Sub(w.t0), To)
				break
			}
		}
	}
}

func init() { endHooks = append(endHooks, c15End) }

func genC15wt(seed uint64, tier string) *Scenario {
	r := core.NewRand(seed)
	s := &Scenario{Sched: genSched(r, seed), Net: simnet.Cfg{Seed: core.Mix(seed, 21)}, Peer: defPeer()}
	s.Oracles = []string{"keepalive"}
	sec := int64(1000000000)
	T := int64(core.Pick(r, 10, 10, 30, 60, 600, 7200)) * sec
	if r.Chance(1, 3) {
		T = int64(r.Range(10, 7200)) * sec
	}
	To := int64(core.Pick(r, 1, 1, 5, 20, 600, 3600)) * sec
	if r.Chance(1, 3) {
		To = int64(r.Range(1, 3600)) * sec
	}
	c := &s.Client
	c.KATimeNs, c.KATimeoutNs, c.KAPermit, c.NoIdle = T, To, r.Chance(1, 2), true
	eps := int64(core.Pick(r, 1, 1000000, 50000000, 1000000000))
	if eps >= To {
		eps = To / 2
	}
	p := &s.Peer
	kind := r.Intn(5)
	if kind == 4 {
		return genC15Burst(seed, r, s, T, To, eps)
	}
	anchorStart := int64(r.Intn(3)) * int64(r.LogUniform(1, int(T)))
	var srv []SOp
	end := anchorStart + 3*(T+To)
	switch kind {
	case 0: // silent forever
		p.PingAck = "never"
		srv = []SOp{{Op: "hang"}}
	case 1: // one frame every Time-eps (or exactly Time), then silence
		p.PingAck = "never"
		k := r.Range(1, 12)
		gap := T - core.Pick(r, eps, eps, 0)
		srv = []SOp{{Op: "headers"}}
		for i := 0; i < k; i++ {
			srv = append(srv, SOp{Op: "sleep", Ns: gap}, SOp{Op: "send", N: r.Range(0, 20)})
		}
		srv = append(srv, SOp{Op: "hang"})
		end = anchorStart + int64(k)*gap + 3*(T+To)
		if r.Chance(1, 2) {
			// PING frames from the peer instead of DATA
			srv = []SOp{{Op: "hang"}}
			for i := 1; i <= k; i++ {
				a := act(anchorStart+int64(i)*gap, "ping")
				a.Tag = i
				a.Conn = -1
				s.Actions = append(s.Actions, a)
			}
		}
	case 2: // ping acks late by Timeout -/+ eps
		p.PingAck = "delay"
		p.PingAckDelayNs = To + core.Pick(r, -eps, -eps, eps, 0)
		srv = []SOp{{Op: "hang"}}
		end = anchorStart + int64(r.Range(2, 6))*(T+To)
	default: // dormancy: streams come and go
		p.PingAck = core.Pick(r, "never", "never", "")
		c.KAPermit = false
		srv = []SOp{{Op: "hang"}}
	}
	// anchor RPCs keep a stream open
	na := 1
	if kind == 3 {
		na = r.Range(1, 3)
	}
	t := anchorStart
	for i := 0; i < na; i++ {
		rpc := RPC{ID: uint32(i + 1), StartNs: t, WaitReady: true}
		life := end - t + 3600*sec
		if kind == 3 || r.Chance(1, 4) {
			life = int64(core.Pick(r, T/2, T-eps, T+eps, T+To-eps, T+To+eps, 2*T+To))
			if life < 1 {
				life = 1
			}
		}
		rpc.Client = []Op{{Op: "sleep", Ns: life}, {Op: "cancel"}, {Op: "recv_all"}}
		if kind == 1 {
			rpc.Client = []Op{{Op: "recv_all"}}
		}
		rpc.DeadlineNs = end + 7200*sec
		rpc.Server = [][]SOp{srv}
		s.RPCs = append(s.RPCs, rpc)
		t += life + int64(core.Pick(r, 1, sec, T/2, T+To+sec, 3*T))
		if t+T+To > end {
			end = t + 2*(T+To)
		}
	}
	s.EndNs = end
	sortActions(s)
	return s
}

// genC15Burst: streams opening out of dormancy, several at the same instant.
// Without PermitWithoutStream the connection is first used by one short RPC,
// then idle for longer than Time (the keepalive goroutine goes dormant), then
// 2..8 RPCs start at one virtual instant and stay open against a peer that is
// silent (or answers pings late / in time). Keepalive is applicable from that
// instant, so a silent peer must be detected Timeout later.
func genC15Burst(seed uint64, r *core.Rand, s *Scenario, T, To, eps int64) *Scenario {
	sec := int64(1000000000)
	c := &s.Client
	c.KAPermit = false
	p := &s.Peer
	switch r.Intn(4) {
	case 0, 1:
		p.PingAck = "never"
	case 2:
		p.PingAck = "delay"
		p.PingAckDelayNs = To + core.Pick(r, -eps, eps)
	default:
		p.PingAck = ""
	}
	s.RPCs = append(s.RPCs, RPC{ID: 1, StartNs: 0, WaitReady: true, DeadlineNs: 3600 * sec,
		Client: []Op{{Op: "close_send"}, {Op: "recv_all"}}, Server: [][]SOp{{{Op: "trailers"}}}})
	// dormant after Time without streams; one or two bursts
	at := T + int64(core.Pick(r, sec, T/2, T, 3*T+eps))
	end := at
	id := uint32(1)
	for b := r.Range(1, 2); b > 0; b-- {
		n := r.Range(2, 8)
		life := int64(core.Pick(r, To+T+10*sec, 2*(T+To), To/2+1))
		for i := 0; i < n; i++ {
			id++
			rpc := RPC{ID: id, StartNs: at, WaitReady: true}
			rpc.Client = []Op{{Op: "sleep", Ns: life}, {Op: "cancel"}, {Op: "recv_all"}}
			if r.Chance(1, 3) {
				rpc.Client = append([]Op{{Op: "send", N: r.Range(0, 100)}}, rpc.Client...)
			}
			rpc.Server = [][]SOp{{{Op: "hang"}}}
			s.RPCs = append(s.RPCs, rpc)
		}
		end = at + life + T + To + 10*sec
		at = end + T + int64(core.Pick(r, sec, T)) // dormant again before the next burst
	}
	for i := range s.RPCs {
		s.RPCs[i].DeadlineNs = end + 7200*sec
	}
	s.EndNs = end
	return s
}

func init() { core.Register("C15wt", genC15wt, Run) }
