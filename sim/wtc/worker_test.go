package wtc

import (
	"testing"

	"google.golang.org/grpc/internal/zzverif/core"
)

func TestSimWorker(t *testing.T) {
	// whole transports: the interesting windows are one scheduling point wide
	// among dozens of goroutines (e.g. between a failed stream-quota check and
	// parking); site delays reach them, uniform picks do not
	core.PCTPercent, core.PCTSDPercent, core.SDPercent = 15, 10, 20
	core.WorkerMain(t)
}
