package wtc

import (
	"testing"

	"google.golang.org/grpc/internal/zzverif/core"
)

func TestSimWorker(t *testing.T) { core.WorkerMain(t) }
