// Package wtc is the "client transport vs scripted peer" world: a real
// grpc.ClientConn dials over simnet to a scripted HTTP/2 server peer that the
// harness plays frame by frame (x/net/http2.Framer + hpack). The peer is a
// stub; everything on the client side is real.
package wtc

import (
	"bytes"
	"container/heap"
	"encoding/hex"
	"errors"
	"fmt"
	"io"
	"net"
	"strconv"
	"time"

	"golang.org/x/net/http2"
	"golang.org/x/net/http2/hpack"

	"google.golang.org/grpc/internal/zzverif/tap"
)

const h2Preface = "PRI * HTTP/2.0\r\n\r\nSM\r\n\r\n"

// Grant is an automatic window-granting policy of the peer (as receiver).
type Grant struct {
	// Mode: "" echo every DATA frame | chunk (when >= K bytes accumulated) |
	// ones (1-byte updates, bursts) | exhaust (only when the window the peer
	// advertised is used up) | dribble (at most K per DATA frame) | none
	Mode    string `json:"mode,omitempty"`
	K       int    `json:"k,omitempty"`
	DelayNs int64  `json:"delay_ns,omitempty"`
}

// PeerCfg configures the scripted server for every accepted connection.
type PeerCfg struct {
	IWS             int64  `json:"iws"` // SETTINGS_INITIAL_WINDOW_SIZE in the server preface; -1: absent
	MFS             int64  `json:"mfs"` // SETTINGS_MAX_FRAME_SIZE; -1: absent
	MCS             int64  `json:"mcs"` // SETTINGS_MAX_CONCURRENT_STREAMS; -1: absent
	HTS             int64  `json:"hts"` // SETTINGS_HEADER_TABLE_SIZE; -1: absent
	ConnGrant0      int    `json:"conn_grant0,omitempty"`
	SGrant          Grant  `json:"sgrant"`
	CGrant          Grant  `json:"cgrant"`
	PingAck         string `json:"ping_ack,omitempty"` // "" immediately | never | delay
	PingAckDelayNs  int64  `json:"ping_ack_delay_ns,omitempty"`
	SettingsDelayNs int64  `json:"settings_delay_ns,omitempty"`
	AckDelayNs      int64  `json:"ack_delay_ns,omitempty"`
	NoPreface       bool   `json:"no_preface,omitempty"` // hostile: never send the server preface
	NoAck           bool   `json:"no_ack,omitempty"`     // never acknowledge the client's SETTINGS
	Unscripted      string `json:"unscripted,omitempty"` // what to do with streams without x-sim-rpc: "" ignore | refuse
	CheckRecv       bool   `json:"check_recv,omitempty"` // verify the pattern of every received message
	BDPAckDelayNs   int64  `json:"bdp_ack_delay_ns,omitempty"`
	IllegalWrites   bool   `json:"illegal_writes,omitempty"`
}

// SOp is one step of the peer's per-stream script.
type SOp struct {
	// headers | send | trailers | rst | sleep | recv | recv_all | wait_bytes |
	// grant | end_data | frame | raw | hang
	Op string `json:"op"`
	N  int    `json:"n,omitempty"`
	Ns int64  `json:"ns,omitempty"`
	// sleep: streams after the first FirstK of their connection sleep Ns2 instead
	FirstK int    `json:"first_k,omitempty"`
	Ns2    int64  `json:"ns2,omitempty"`
	Code   int    `json:"code,omitempty"`
	Msg    string `json:"msg,omitempty"`
	Split  []int  `json:"split,omitempty"` // DATA payload sizes, cycled (empty: as large as allowed)
	Pad    int    `json:"pad,omitempty"`   // padding bytes on every DATA frame
	Over   int    `json:"over,omitempty"`  // overrun: exceed the client's stream window by this many bytes (class B)
	// message framing (send): flag byte, lie = delta added to the declared
	// length, enc = compressor applied to the payload, trunc = stop after this
	// many bytes of the framed message (0: all)
	Flag  int    `json:"flag,omitempty"`
	Lie   int    `json:"lie,omitempty"`
	Enc   string `json:"enc,omitempty"`
	Trunc int    `json:"trunc,omitempty"`
	End   bool   `json:"end,omitempty"` // send: END_STREAM on the last DATA frame
	MD    []KV   `json:"md,omitempty"`  // headers/trailers: extra fields (raw, in order)
	NoStd bool   `json:"no_std,omitempty"`
	// frame/raw (hostile)
	FType  int    `json:"ftype,omitempty"`
	FFlags int    `json:"fflags,omitempty"`
	FSid   int64  `json:"fsid,omitempty"` // -1: this stream
	Hex    string `json:"hex,omitempty"`
}

type KV struct {
	K    string `json:"k"`
	V    string `json:"v,omitempty"`
	VHex string `json:"v_hex,omitempty"`
}

func (p KV) val() string {
	if p.VHex != "" {
		b, _ := hex.DecodeString(p.VHex)
		return string(b)
	}
	return p.V
}

type grantState struct{ acc int64 }

type peerStream struct {
	pc      *peerConn
	id      uint32
	rpc     uint32
	haveRPC bool
	att     int
	ignored bool
	// receive side (client -> peer)
	recvBytes   int64
	granted     int64 // stream-level WINDOW_UPDATE increments the peer has queued
	msgs        int
	pfx         [5]byte
	pfxN        int
	msgLen      int
	msgOff      int
	inMsg       bool
	endStream   bool
	rstByClient bool
	sg          grantState
	// send side (peer -> client)
	sendUpd    int64 // WINDOW_UPDATE increments received for this stream
	sent       int64 // flow-controlled bytes queued
	hdrSent    bool
	ended      bool
	rstSent    bool
	sentMsgs   int
	overSent   int64 // bytes sent beyond the advertised window on purpose
	overAt     time.Time
	scriptEnd  bool
	rawSent    []byte // the message byte stream queued on this stream (framing oracle)
	respEnc    string // grpc-encoding announced in the response headers
	scriptIdle bool   // the script is in a sleep/hang or finished: it owes the client nothing right now
}

type outItem struct {
	kind      byte
	sid       uint32
	inc       uint32
	settings  []http2.Setting
	fields    []hpack.HeaderField
	endStream bool
	data      []byte
	pad       int
	code      http2.ErrCode
	last      uint32
	debug     []byte
	ping      [8]byte
	ack       bool
	ftype     http2.FrameType
	fflags    http2.Flags
	stallNs   int64
	fn        func()
}

// peerConn is the scripted server's end of one connection.
type peerConn struct {
	w    *run
	idx  int
	c    net.Conn
	fr   *http2.Framer
	henc *hpack.Encoder
	hbuf bytes.Buffer
	cfg  PeerCfg

	q        []outItem
	delayed  delayHeap
	onesLeft int
	fenceSeq int
	dseq     uint64
	dsig     chan struct{}
	qsig     chan struct{}
	done     chan struct{}
	dead     bool
	deadAt   time.Time
	deadWhy  string
	changed  chan struct{}

	streams   map[uint32]*peerStream
	order     []uint32
	rpcCount  map[uint32]int
	prefaceOK bool
	// peer as receiver
	iws          int64 // the peer's advertised SETTINGS_INITIAL_WINDOW_SIZE as last sent
	connRecv     int64
	connGranted  int64
	cg           grantState
	readStallTil time.Time
	readStalled  bool
	// peer as sender
	cliIWS      int64
	cliMFS      int64
	connSendUpd int64
	connSent    int64
	// client's SETTINGS / pings / goaway
	cliSettings  int
	acksSeen     int
	settingsSent int
	goAwaySent   bool
	goAwayLast   uint32
	cliGoAway    bool
	pingAcks     map[[8]byte]time.Time
	pingsSeen    int
	lastPingAt   time.Time
	rxFrames     int
	// C04: what the client advertised in total
	cliConnAdv    int64
	flowErrs      int
	cliRst        map[uint32]http2.ErrCode
	cliGoAwayCode http2.ErrCode
}

func (w *run) newPeerConn(c net.Conn, idx int) *peerConn {
	pc := &peerConn{w: w, idx: idx, c: c, cfg: w.sc.Peer, qsig: make(chan struct{}, 1), dsig: make(chan struct{}, 1), done: make(chan struct{}), changed: make(chan struct{}),
		streams: map[uint32]*peerStream{}, rpcCount: map[uint32]int{}, iws: 65535, cliIWS: 65535, cliMFS: 16384, pingAcks: map[[8]byte]time.Time{}, cliRst: map[uint32]http2.ErrCode{}}
	pc.onesLeft = 400
	pc.fr = http2.NewFramer(c, c)
	pc.fr.SetMaxReadFrameSize(1<<24 - 1)
	pc.fr.ReadMetaHeaders = hpack.NewDecoder(4096, nil)
	pc.fr.MaxHeaderListSize = 1 << 26
	pc.fr.AllowIllegalWrites = true
	pc.henc = hpack.NewEncoder(&pc.hbuf)
	return pc
}

// bump tells waiting stream goroutines that the connection state changed.
func (pc *peerConn) bump() {
	// swap first: close() is itself a scheduling point
	old := pc.changed
	pc.changed = make(chan struct{})
	close(old)
}

// waitFor blocks until cond holds; false if the connection died first.
func (pc *peerConn) waitFor(cond func() bool) bool {
	for {
		if pc.dead {
			return false
		}
		if cond() {
			return true
		}
		ch := pc.changed
		select {
		case <-ch:
		case <-pc.done:
			return false
		}
	}
}

func (pc *peerConn) sleep(d time.Duration) bool {
	if d <= 0 {
		return !pc.dead
	}
	t := time.NewTimer(d)
	select {
	case <-t.C:
		return !pc.dead
	case <-pc.done:
		t.Stop()
		return false
	}
}

// later runs fn on the connection after d unless it died. Delayed actions
// of one connection are run by a single timer goroutine in due-time order
// (FIFO among equal due times).
func (pc *peerConn) later(d time.Duration, fn func()) {
	if d <= 0 {
		fn()
		return
	}
	pc.dseq++
	heap.Push(&pc.delayed, delayedFn{time.Now().Add(d), pc.dseq, fn})
	select {
	case pc.dsig <- struct{}{}:
	default:
	}
}

type delayedFn struct {
	at  time.Time
	seq uint64
	fn  func()
}

type delayHeap []delayedFn

func (h delayHeap) Len() int { return len(h) }
func (h delayHeap) Less(i, j int) bool {
	return h[i].at.Before(h[j].at) || h[i].at.Equal(h[j].at) && h[i].seq < h[j].seq
}
func (h delayHeap) Swap(i, j int) { h[i], h[j] = h[j], h[i] }
func (h *delayHeap) Push(x any)   { *h = append(*h, x.(delayedFn)) }
func (h *delayHeap) Pop() any {
	o := *h
	x := o[len(o)-1]
	o[len(o)-1] = delayedFn{}
	*h = o[:len(o)-1]
	return x
}

func (pc *peerConn) delayer() {
	defer pc.w.helpers.Done()
	for {
		if pc.dead {
			return
		}
		if len(pc.delayed) == 0 {
			select {
			case <-pc.dsig:
			case <-pc.done:
				return
			}
			continue
		}
		d := time.Until(pc.delayed[0].at)
		if d <= 0 {
			x := heap.Pop(&pc.delayed).(delayedFn)
			x.fn()
			continue
		}
		t := time.NewTimer(d)
		select {
		case <-t.C:
		case <-pc.dsig:
			t.Stop()
		case <-pc.done:
			t.Stop()
			return
		}
	}
}

func (pc *peerConn) kill(why string) {
	if pc.dead {
		return
	}
	pc.dead = true
	pc.deadAt = time.Now()
	pc.deadWhy = why
	pc.w.e.Logf("peer conn %d dead: %s", pc.idx, why)
	close(pc.done)
	pc.c.Close()
	pc.bump()
}

func (pc *peerConn) put(it outItem) {
	if pc.dead {
		return
	}
	pc.q = append(pc.q, it)
	select {
	case pc.qsig <- struct{}{}:
	default:
	}
}

func (pc *peerConn) writer() {
	defer pc.w.helpers.Done()
	for {
		for len(pc.q) == 0 {
			select {
			case <-pc.qsig:
			case <-pc.done:
				return
			}
		}
		if pc.dead {
			return
		}
		it := pc.q[0]
		pc.q = pc.q[1:]
		if it.stallNs > 0 {
			if !pc.sleep(time.Duration(it.stallNs)) {
				return
			}
		}
		var err error
		switch it.kind {
		case 'S':
			err = pc.fr.WriteSettings(it.settings...)
		case 'A':
			err = pc.fr.WriteSettingsAck()
		case 'W':
			err = pc.fr.WriteWindowUpdate(it.sid, it.inc)
		case 'H':
			err = pc.writeHeaders(it)
		case 'D':
			if it.pad > 0 {
				err = pc.fr.WriteDataPadded(it.sid, it.endStream, it.data, make([]byte, it.pad))
			} else {
				err = pc.fr.WriteData(it.sid, it.endStream, it.data)
			}
		case 'R':
			err = pc.fr.WriteRSTStream(it.sid, it.code)
		case 'G':
			err = pc.fr.WriteGoAway(it.last, it.code, it.debug)
		case 'P':
			err = pc.fr.WritePing(it.ack, it.ping)
		case 'F':
			err = pc.fr.WriteRawFrame(it.ftype, it.fflags, it.sid, it.data)
		case 'X':
			_, err = pc.c.Write(it.data)
		case 'C':
			pc.kill("scripted close")
			return
		}
		if it.fn != nil {
			it.fn()
		}
		if err != nil {
			pc.kill("write: " + err.Error())
			return
		}
	}
}

func (pc *peerConn) writeHeaders(it outItem) error {
	pc.hbuf.Reset()
	for _, f := range it.fields {
		pc.henc.WriteField(f)
	}
	blk := pc.hbuf.Bytes()
	first := true
	max := int(pc.cliMFS)
	for {
		n := len(blk)
		end := true
		if n > max {
			n, end = max, false
		}
		var err error
		if first {
			err = pc.fr.WriteHeaders(http2.HeadersFrameParam{StreamID: it.sid, BlockFragment: blk[:n], EndStream: it.endStream, EndHeaders: end})
			first = false
		} else {
			err = pc.fr.WriteContinuation(it.sid, end, blk[:n])
		}
		if err != nil {
			return err
		}
		blk = blk[n:]
		if end {
			return nil
		}
	}
}

// ---- reader ----

func (pc *peerConn) reader() {
	defer pc.w.helpers.Done()
	e := pc.w.e
	if !pc.cfg.NoPreface {
		pc.later(time.Duration(pc.cfg.SettingsDelayNs), pc.sendPreface)
	}
	buf := make([]byte, len(h2Preface))
	if _, err := io.ReadFull(pc.c, buf); err != nil || string(buf) != h2Preface {
		pc.kill(fmt.Sprintf("client preface: %v", err))
		return
	}
	pc.prefaceOK = true
	for {
		for {
			now := time.Now()
			if !now.Before(pc.readStallTil) {
				break
			}
			pc.readStalled = true
			if !pc.sleep(pc.readStallTil.Sub(now)) {
				return
			}
		}
		pc.readStalled = false
		f, err := pc.fr.ReadFrame()
		if pc.dead {
			return
		}
		if err != nil {
			if se, ok := err.(http2.StreamError); ok {
				e.Logf("peer conn %d: stream error from framer on stream %d: %v", pc.idx, se.StreamID, se.Code)
				continue
			}
			pc.kill("read: " + err.Error())
			return
		}
		pc.rxFrames++
		pc.handle(f)
		pc.bump()
	}
}

func (pc *peerConn) sendPreface() {
	var ss []http2.Setting
	c := pc.cfg
	if c.IWS >= 0 {
		ss = append(ss, http2.Setting{ID: http2.SettingInitialWindowSize, Val: uint32(c.IWS)})
		pc.iws = c.IWS
	}
	if c.MFS >= 0 {
		ss = append(ss, http2.Setting{ID: http2.SettingMaxFrameSize, Val: uint32(c.MFS)})
	}
	if c.MCS >= 0 {
		ss = append(ss, http2.Setting{ID: http2.SettingMaxConcurrentStreams, Val: uint32(c.MCS)})
	}
	if c.HTS >= 0 {
		ss = append(ss, http2.Setting{ID: http2.SettingHeaderTableSize, Val: uint32(c.HTS)})
	}
	pc.settingsSent++
	pc.put(outItem{kind: 'S', settings: ss})
	if c.ConnGrant0 > 0 {
		pc.grantConn(int64(c.ConnGrant0))
	}
}

const maxWin = 1<<31 - 1

// connRemain is the peer's view of the connection window it has advertised.
func (pc *peerConn) connRemain() int64 { return 65535 + pc.connGranted - pc.connRecv }

func (ps *peerStream) remain() int64 { return ps.pc.iws + ps.granted - ps.recvBytes }

func (pc *peerConn) grantConn(n int64) {
	if n <= 0 {
		return
	}
	if pc.connRemain()+n > maxWin {
		n = maxWin - pc.connRemain()
		if n <= 0 {
			return
		}
	}
	pc.connGranted += n
	pc.put(outItem{kind: 'W', sid: 0, inc: uint32(n)})
}

func (pc *peerConn) grantStream(ps *peerStream, n int64) {
	if n <= 0 {
		return
	}
	// stay legal: no window above 2^31-1, also after a later IWS raise to 1 MiB
	if ps.remain()+n > maxWin-(1<<21) {
		n = maxWin - (1 << 21) - ps.remain()
		if n <= 0 {
			return
		}
	}
	ps.granted += n
	pc.put(outItem{kind: 'W', sid: ps.id, inc: uint32(n)})
}

func (pc *peerConn) autoGrant(g Grant, st *grantState, n int64, remain func() int64, grant func(int64)) {
	if n <= 0 {
		return
	}
	do := func(fn func()) { pc.later(time.Duration(g.DelayNs), fn) }
	switch g.Mode {
	case "", "echo":
		do(func() { grant(n) })
	case "chunk":
		st.acc += n
		if st.acc >= int64(g.K) {
			v := st.acc
			st.acc = 0
			do(func() { grant(v) })
		}
	case "ones":
		k := n
		if pc.onesLeft <= 0 {
			// enough one-byte bursts for one connection (a window that is given
			// back byte by byte makes the sender trickle): from now on give
			// everything back when the window is used up
			st.acc += n
			if remain() <= 0 {
				v := st.acc
				st.acc = 0
				do(func() { grant(v) })
			}
			return
		}
		pc.onesLeft -= 40
		if k > 40 {
			v := n - 40
			k = 40
			do(func() { grant(v) })
		}
		do(func() {
			for i := int64(0); i < k; i++ {
				grant(1)
			}
		})
	case "exhaust":
		st.acc += n
		if remain() <= 0 {
			v := st.acc
			if g.K > 0 && int64(g.K) < v {
				v = int64(g.K)
			}
			st.acc -= v
			do(func() { grant(v) })
		}
	case "dribble":
		st.acc += n
		v := st.acc
		if k := int64(g.K); k > 0 && v > k {
			v = k
		}
		st.acc -= v
		do(func() { grant(v) })
	case "none":
	}
}

func (pc *peerConn) handle(f http2.Frame) {
	e := pc.w.e
	switch f := f.(type) {
	case *http2.SettingsFrame:
		if f.IsAck() {
			pc.acksSeen++
			return
		}
		pc.cliSettings++
		f.ForeachSetting(func(s http2.Setting) error {
			switch s.ID {
			case http2.SettingInitialWindowSize:
				pc.cliIWS = int64(s.Val)
			case http2.SettingMaxFrameSize:
				pc.cliMFS = int64(s.Val)
			}
			return nil
		})
		if !pc.cfg.NoAck {
			pc.later(time.Duration(pc.cfg.AckDelayNs), func() { pc.put(outItem{kind: 'A'}) })
		}
	case *http2.MetaHeadersFrame:
		pc.onHeaders(f)
	case *http2.DataFrame:
		n := int64(f.Length)
		pc.connRecv += n
		pc.autoGrant(pc.cfg.CGrant, &pc.cg, n, pc.connRemain, pc.grantConn)
		ps := pc.streams[f.StreamID]
		if ps == nil {
			return
		}
		ps.recvBytes += n
		pc.feedMsg(ps, f.Data())
		if f.StreamEnded() {
			ps.endStream = true
		}
		if !ps.ignored {
			pc.autoGrant(pc.cfg.SGrant, &ps.sg, n, ps.remain, func(v int64) { pc.grantStream(ps, v) })
		}
	case *http2.RSTStreamFrame:
		pc.cliRst[f.StreamID] = f.ErrCode
		if f.ErrCode == http2.ErrCodeFlowControl {
			pc.flowErrs++
		}
		if ps := pc.streams[f.StreamID]; ps != nil {
			ps.rstByClient = true
		}
	case *http2.WindowUpdateFrame:
		if f.StreamID == 0 {
			pc.connSendUpd += int64(f.Increment)
			pc.cliConnAdv += int64(f.Increment)
		} else if ps := pc.streams[f.StreamID]; ps != nil {
			ps.sendUpd += int64(f.Increment)
		}
	case *http2.PingFrame:
		if f.IsAck() {
			pc.pingAcks[f.Data] = time.Now()
			return
		}
		pc.pingsSeen++
		pc.lastPingAt = time.Now()
		data := f.Data
		switch pc.cfg.PingAck {
		case "never":
		case "delay":
			pc.later(time.Duration(pc.cfg.PingAckDelayNs), func() { pc.put(outItem{kind: 'P', ack: true, ping: data}) })
		default:
			pc.later(time.Duration(pc.cfg.BDPAckDelayNs), func() { pc.put(outItem{kind: 'P', ack: true, ping: data}) })
		}
	case *http2.GoAwayFrame:
		pc.cliGoAway = true
		pc.cliGoAwayCode = f.ErrCode
		e.Logf("peer conn %d: client GOAWAY code=%v last=%d", pc.idx, f.ErrCode, f.LastStreamID)
	}
}

func (pc *peerConn) onHeaders(f *http2.MetaHeadersFrame) {
	e := pc.w.e
	id := f.StreamID
	if ps := pc.streams[id]; ps != nil {
		// client trailers do not exist in gRPC; ignore
		if f.StreamEnded() {
			ps.endStream = true
		}
		return
	}
	ps := &peerStream{pc: pc, id: id}
	pc.streams[id] = ps
	pc.order = append(pc.order, id)
	for _, hf := range f.Fields {
		if hf.Name == "x-sim-rpc" {
			if n, err := strconv.ParseUint(hf.Value, 10, 32); err == nil {
				ps.rpc, ps.haveRPC = uint32(n), true
			}
		}
	}
	if f.StreamEnded() {
		ps.endStream = true
	}
	if st := pc.w.rpcs[ps.rpc]; ps.haveRPC && st != nil {
		ps.att = pc.w.attempts[ps.rpc]
		pc.w.attempts[ps.rpc]++
		st.peerStreams = append(st.peerStreams, ps)
	}
	if pc.goAwaySent && id > pc.goAwayLast {
		// a conforming server ignores streams above the id it announced
		ps.ignored = true
		e.Logf("peer conn %d: ignoring stream %d above GOAWAY id %d", pc.idx, id, pc.goAwayLast)
		return
	}
	if !ps.haveRPC {
		ps.ignored = true
		if pc.cfg.Unscripted == "refuse" {
			pc.put(outItem{kind: 'R', sid: id, code: http2.ErrCodeRefusedStream})
		}
		return
	}
	st := pc.w.rpcs[ps.rpc]
	if st == nil {
		ps.ignored = true
		return
	}
	e.Logf("peer conn %d: stream %d is rpc %d attempt %d", pc.idx, id, ps.rpc, ps.att)
	if len(st.r.Server) == 0 {
		return
	}
	script := st.r.Server[min(ps.att, len(st.r.Server)-1)]
	pc.w.helpers.Add(1)
	go func() {
		defer pc.w.helpers.Done()
		pc.runScript(ps, script)
		ps.scriptEnd = true
		ps.scriptIdle = true
	}()
}

// feedMsg re-assembles gRPC messages from the client's DATA payload.
func (pc *peerConn) feedMsg(ps *peerStream, b []byte) {
	for len(b) > 0 {
		if !ps.inMsg {
			n := copy(ps.pfx[ps.pfxN:], b)
			ps.pfxN += n
			b = b[n:]
			if ps.pfxN < 5 {
				return
			}
			ps.pfxN = 0
			ps.msgLen = int(uint32(ps.pfx[1])<<24 | uint32(ps.pfx[2])<<16 | uint32(ps.pfx[3])<<8 | uint32(ps.pfx[4]))
			ps.msgOff = 0
			ps.inMsg = true
			if ps.msgLen == 0 {
				ps.inMsg = false
				ps.msgs++
			}
			continue
		}
		n := ps.msgLen - ps.msgOff
		if n > len(b) {
			n = len(b)
		}
		if pc.cfg.CheckRecv && ps.haveRPC && ps.pfx[0] == 0 {
			if off := tap.CheckPat(b[:n], ps.rpc, 'c', ps.msgs, ps.msgOff); off >= 0 {
				pc.w.e.Violate("peer_recv_payload_mismatch", "peer received a wrong byte on conn %d stream %d (rpc %d) message %d offset %d", pc.idx, ps.id, ps.rpc, ps.msgs, ps.msgOff+off)
				pc.cfg.CheckRecv = false
			}
		}
		ps.msgOff += n
		b = b[n:]
		if ps.msgOff == ps.msgLen {
			ps.inMsg = false
			ps.msgs++
		}
	}
}

// ---- per-stream script ----

func (ps *peerStream) closed() bool { return ps.rstByClient || ps.rstSent || ps.ended }

func stdHeaders() []hpack.HeaderField {
	return []hpack.HeaderField{{Name: ":status", Value: "200"}, {Name: "content-type", Value: "application/grpc"}}
}

func (pc *peerConn) sendHeaders(ps *peerStream, op SOp) {
	var hf []hpack.HeaderField
	if !op.NoStd {
		hf = stdHeaders()
		hf = append(hf, hpack.HeaderField{Name: "x-sim-att", Value: strconv.Itoa(ps.att)})
	}
	for _, kv := range op.MD {
		hf = append(hf, hpack.HeaderField{Name: kv.K, Value: kv.val()})
		if kv.K == "grpc-encoding" {
			ps.respEnc = kv.val()
		}
	}
	ps.hdrSent = true
	pc.put(outItem{kind: 'H', sid: ps.id, fields: hf})
}

func (pc *peerConn) sendTrailers(ps *peerStream, op SOp) {
	var hf []hpack.HeaderField
	if !op.NoStd {
		if !ps.hdrSent {
			hf = stdHeaders() // trailers-only
		}
		hf = append(hf, hpack.HeaderField{Name: "grpc-status", Value: strconv.Itoa(op.Code)})
		if op.Msg != "" {
			hf = append(hf, hpack.HeaderField{Name: "grpc-message", Value: op.Msg})
		}
	}
	for _, kv := range op.MD {
		hf = append(hf, hpack.HeaderField{Name: kv.K, Value: kv.val()})
	}
	ps.hdrSent = true
	ps.ended = true
	pc.put(outItem{kind: 'H', sid: ps.id, fields: hf, endStream: true})
	pc.w.noteReturned(ps, op.Code)
}

// sendWin is how many flow-controlled bytes the peer may still send on ps.
func (pc *peerConn) sendWin(ps *peerStream) int64 {
	s := pc.cliIWS + ps.sendUpd - ps.sent
	c := 65535 + pc.connSendUpd - pc.connSent
	if c < s {
		return c
	}
	return s
}

// sendBytes sends b as DATA frames within the client's windows (class A). With
// force the stream window is ignored (class B); the connection window and the
// frame size limit are always respected.
func (pc *peerConn) sendBytes(ps *peerStream, b []byte, op SOp, end bool, force bool) bool {
	si := 0
	if len(b) == 0 && end {
		ps.ended = true
		pc.put(outItem{kind: 'D', sid: ps.id, endStream: true})
		return true
	}
	for len(b) > 0 {
		want := len(b)
		if len(op.Split) > 0 {
			want = op.Split[si%len(op.Split)]
			si++
			if want <= 0 {
				want = 1
			}
			if want > len(b) {
				want = len(b)
			}
		}
		pad := op.Pad
		if pad > 255 {
			pad = 255
		}
		overhead := 0
		if pad > 0 {
			overhead = pad + 1
		}
		if int64(want+overhead) > pc.cliMFS {
			want = int(pc.cliMFS) - overhead
		}
		var n int
		ok := pc.waitFor(func() bool {
			if ps.rstByClient || ps.rstSent {
				return true
			}
			win := pc.sendWin(ps)
			if force {
				win = 65535 + pc.connSendUpd - pc.connSent
			}
			if win <= int64(overhead) {
				return false
			}
			n = want
			if int64(n+overhead) > win {
				n = int(win) - overhead
			}
			return true
		})
		if !ok || ps.rstByClient || ps.rstSent {
			return false
		}
		if excess := int64(n+overhead) - (pc.cliIWS + ps.sendUpd - ps.sent); excess > 0 {
			if excess > int64(n+overhead) {
				excess = int64(n + overhead)
			}
			ps.overSent += excess
			pc.w.e.Probe("peer_exceeded_stream_window")
		}
		ps.sent += int64(n + overhead)
		pc.connSent += int64(n + overhead)
		if !force && pc.sendWin(ps) == 0 {
			pc.w.e.Probe("peer_used_all_credit")
		}
		last := n == len(b)
		d := append([]byte{}, b[:n]...)
		b = b[n:]
		if last && end {
			ps.ended = true
		}
		pc.put(outItem{kind: 'D', sid: ps.id, data: d, pad: pad, endStream: last && end})
	}
	return true
}

// sendPadding sends n padding-only DATA frames within the client's windows.
func (pc *peerConn) sendPadding(ps *peerStream, n, pad int) bool {
	pad = max(1, min(pad, 255))
	cost := int64(pad + 1)
	if cost > pc.cliMFS {
		return true
	}
	for i := 0; i < n; i++ {
		ok := pc.waitFor(func() bool {
			return ps.rstByClient || ps.rstSent || pc.sendWin(ps) >= cost
		})
		if !ok || ps.rstByClient || ps.rstSent {
			return false
		}
		ps.sent += cost
		pc.connSent += cost
		if pc.sendWin(ps) == 0 {
			pc.w.e.Probe("peer_used_all_credit")
		}
		pc.w.e.Probe("padding_only_frame")
		pc.put(outItem{kind: 'D', sid: ps.id, pad: pad})
	}
	return true
}

// fence sends a PING and waits for its acknowledgement: everything the client
// had queued before it read the PING (window updates, settings) has then been
// received by the peer.
func (pc *peerConn) fence(tag byte) bool {
	pc.fenceSeq++
	d := [8]byte{'O', tag, byte(pc.fenceSeq >> 8), byte(pc.fenceSeq)}
	pc.put(outItem{kind: 'P', ping: d})
	return pc.waitFor(func() bool { _, ok := pc.pingAcks[d]; return ok })
}

// overrun (class B): fill the client's stream window exactly, then send Over
// more bytes. The application must be idle (not reading) so that the window
// the peer knows after a fence is the window the client enforces.
func (pc *peerConn) overrun(ps *peerStream, op SOp) bool {
	if !ps.hdrSent {
		pc.sendHeaders(ps, SOp{})
	}
	if !pc.fence(1) {
		return false
	}
	r := pc.cliIWS + ps.sendUpd - ps.sent
	if r < 0 {
		r = 0
	}
	over := int64(op.Over)
	if over < 1 {
		over = 1
	}
	if r+over < 5 {
		over = 5 - r
	}
	total := int(r + over)
	body, info := pc.w.buildMsg(ps, SOp{N: total - 5})
	info.overrun = true
	pc.w.noteSent(ps, info)
	ps.sentMsgs++
	merge := int64(op.N)
	if merge > r {
		merge = r
	}
	pc.w.e.Probe("overrun_attempted")
	if !pc.sendBytes(ps, body[:r-merge], op, false, false) {
		return false
	}
	// The whole violating part must go out in one go right after the checks:
	// wait for enough connection window, fence (so that the peer's knowledge of
	// the windows is current), and re-check that the connection window is still
	// there (other streams of the peer use it too).
	need := merge + over + int64((merge+over)/16384+1)
	connWin := func() int64 { return 65535 + pc.connSendUpd - pc.connSent }
	ready := false
	for try := 0; try < 6 && !ready; try++ {
		if !pc.waitFor(func() bool { return connWin() >= need || ps.rstByClient }) || ps.rstByClient {
			return false
		}
		if !pc.fence(2) {
			return false
		}
		ready = connWin() >= need
	}
	// the application must be idle (a pending read lets the client raise the
	// window) and must stay idle until the excess has long been delivered
	if st := pc.w.rpcs[ps.rpc]; !ready || st == nil || st.inCall != "" || st.clientDone || time.Until(st.idleUntil) < 2*time.Second {
		ready = false
	}
	if left := pc.cliIWS + ps.sendUpd - ps.sent; !ready || left != merge {
		pc.w.e.Probe("overrun_window_moved")
		info.overrun = false
		st := pc.w.rpcs[ps.rpc]
		st.peerSent[ps.att][len(st.peerSent[ps.att])-1].overrun = false
		return pc.sendBytes(ps, body[r-merge:], op, false, false)
	}
	ps.overAt = time.Now()
	pc.w.e.Probe("overrun_sent")
	return pc.sendBytes(ps, body[r-merge:], SOp{}, false, true)
}

func (pc *peerConn) runScript(ps *peerStream, script []SOp) {
	e := pc.w.e
	for oi, op := range script {
		if pc.dead {
			return
		}
		ps.scriptIdle = false
		switch op.Op {
		case "headers":
			pc.sendHeaders(ps, op)
		case "send":
			if !ps.hdrSent && !op.NoStd {
				pc.sendHeaders(ps, SOp{})
			}
			body, info := pc.w.buildMsg(ps, op)
			if op.Trunc > 0 && op.Trunc < len(body) {
				body = body[:op.Trunc]
				info.truncated = true
			}
			pc.w.noteSent(ps, info)
			ps.sentMsgs++
			if pc.w.sc.has("framing") {
				ps.rawSent = append(ps.rawSent, body...)
			}
			if !pc.sendBytes(ps, body, op, op.End, false) {
				e.Logf("peer conn %d stream %d: send aborted at op %d", pc.idx, ps.id, oi)
				return
			}
		case "padding":
			// N DATA frames that carry nothing but padding (RFC 9113 6.1: legal,
			// e.g. traffic shaping); each costs Pad+1 bytes of flow control
			if !ps.hdrSent && !op.NoStd {
				pc.sendHeaders(ps, SOp{})
			}
			if !pc.sendPadding(ps, op.N, op.Pad) {
				e.Logf("peer conn %d stream %d: padding aborted at op %d", pc.idx, ps.id, oi)
				return
			}
		case "trailers":
			pc.sendTrailers(ps, op)
		case "end_data":
			if !ps.hdrSent {
				pc.sendHeaders(ps, SOp{})
			}
			pc.sendBytes(ps, nil, op, true, false)
		case "rst":
			ps.rstSent = true
			pc.put(outItem{kind: 'R', sid: ps.id, code: http2.ErrCode(op.Code)})
			pc.w.noteReturned(ps, -1-op.Code)
		case "sleep_to_grid":
			// sleep until the next multiple of Ns (strictly after now) of the run's clock
			ps.scriptIdle = true
			now := int64(time.Since(pc.w.t0))
			if !pc.sleep(time.Duration((now/op.Ns+1)*op.Ns - now)) {
				return
			}
		case "sleep":
			ps.scriptIdle = true
			d := op.Ns
			if op.FirstK > 0 && ps.id > uint32(2*op.FirstK-1) {
				d = op.Ns2 // not among the first K streams of this connection
			}
			if !pc.sleep(time.Duration(d)) {
				return
			}
		case "recv":
			want := ps.msgs + 1
			if op.N > 0 {
				want = op.N
			}
			if !pc.waitFor(func() bool { return ps.msgs >= want || ps.endStream || ps.rstByClient }) {
				return
			}
		case "recv_all":
			if !pc.waitFor(func() bool { return ps.endStream || ps.rstByClient }) {
				return
			}
		case "wait_bytes":
			if !pc.waitFor(func() bool { return ps.recvBytes >= int64(op.N) || ps.endStream || ps.rstByClient }) {
				return
			}
		case "read_stall":
			// the peer stops reading the connection for a while (back-pressure)
			if t := time.Now().Add(time.Duration(op.Ns)); t.After(pc.readStallTil) {
				pc.readStallTil = t
			}
		case "overrun":
			if !pc.overrun(ps, op) {
				return
			}
		case "grant":
			pc.grantStream(ps, int64(op.N))
		case "frame":
			sid := ps.id
			if op.FSid >= 0 {
				sid = uint32(op.FSid)
			} else if op.FSid < -1 {
				sid = ps.id + uint32(-op.FSid) - 1 // relative to this stream
			}
			pc.put(outItem{kind: 'F', ftype: http2.FrameType(op.FType), fflags: http2.Flags(op.FFlags), sid: sid, data: hexOrFill(op.Hex, op.N)})
		case "raw":
			b, _ := hex.DecodeString(op.Hex)
			pc.put(outItem{kind: 'X', data: b})
		case "hang":
			ps.scriptIdle = true
			pc.waitFor(func() bool { return false })
			return
		}
	}
}

// ---- connection-level actions ----

// Action is a timed step of the peer (or the world) outside any stream script.
type Action struct {
	AtNs int64 `json:"at_ns"`
	// settings | wupd | ping | fence | goaway | rst | read_stall | write_stall |
	// close | frame | raw | grant_all | check
	Kind  string `json:"kind"`
	Conn  int    `json:"conn"` // connection index; -1: the newest live connection
	IWS   int64  `json:"iws"`  // settings: -1 absent
	MFS   int64  `json:"mfs"`
	MCS   int64  `json:"mcs"`
	HTS   int64  `json:"hts"`
	RPC   uint32 `json:"rpc_id,omitempty"` // wupd/rst: stream of this rpc (0: connection level / raw Sid)
	Sid   uint32 `json:"sid,omitempty"`
	Inc   int64  `json:"inc,omitempty"`
	Count int    `json:"count,omitempty"`
	Last  int64  `json:"last,omitempty"` // goaway: last stream id; -1: highest stream id seen; -2: seen+2
	Code  int    `json:"code,omitempty"`
	Debug string `json:"debug,omitempty"`
	DurNs int64  `json:"dur_ns,omitempty"`
	FType int    `json:"ftype,omitempty"`
	FFlag int    `json:"fflags,omitempty"`
	Hex   string `json:"hex,omitempty"`
	Tag   int    `json:"tag,omitempty"`
	N     int    `json:"n,omitempty"` // frame: payload of n filler bytes when hex is empty
}

func hexOrFill(h string, n int) []byte {
	if h != "" || n <= 0 {
		b, _ := hex.DecodeString(h)
		return b
	}
	b := make([]byte, n)
	for i := range b {
		b[i] = byte(i*7 + n)
	}
	return b
}

func (w *run) targetConn(a Action) *peerConn {
	if a.Conn >= 0 {
		if a.Conn < len(w.peers) {
			return w.peers[a.Conn]
		}
		return nil
	}
	for i := len(w.peers) - 1; i >= 0; i-- {
		if !w.peers[i].dead {
			return w.peers[i]
		}
	}
	return nil
}

func (pc *peerConn) streamOfRPC(rpc uint32) *peerStream {
	var best *peerStream
	for _, id := range pc.order {
		if ps := pc.streams[id]; ps.haveRPC && ps.rpc == rpc {
			best = ps
		}
	}
	return best
}

func (pc *peerConn) highestStream() uint32 {
	var h uint32
	for _, id := range pc.order {
		if id > h {
			h = id
		}
	}
	return h
}

var errNoConn = errors.New("no such connection")

func (w *run) doAction(a Action) {
	e := w.e
	if a.Kind == "check" {
		w.requestQuiesce()
		return
	}
	pc := w.targetConn(a)
	if pc == nil || pc.dead {
		e.Logf("action %s: no live connection %d", a.Kind, a.Conn)
		e.Probe("action_skipped_no_conn")
		return
	}
	e.Logf("action %s conn=%d", a.Kind, pc.idx)
	switch a.Kind {
	case "settings":
		var ss []http2.Setting
		if a.IWS >= 0 {
			ss = append(ss, http2.Setting{ID: http2.SettingInitialWindowSize, Val: uint32(a.IWS)})
			if a.IWS < pc.iws {
				e.Probe("peer_lowered_iws")
				for _, id := range pc.order {
					if ps := pc.streams[id]; !ps.closed() && a.IWS+ps.granted-ps.recvBytes < 0 {
						e.Probe("peer_iws_below_outstanding")
						break
					}
				}
			} else if a.IWS > pc.iws {
				e.Probe("peer_raised_iws")
			}
			pc.iws = a.IWS
		}
		if a.MFS >= 0 {
			ss = append(ss, http2.Setting{ID: http2.SettingMaxFrameSize, Val: uint32(a.MFS)})
		}
		if a.MCS >= 0 {
			ss = append(ss, http2.Setting{ID: http2.SettingMaxConcurrentStreams, Val: uint32(a.MCS)})
			e.Probe("peer_changed_mcs")
		}
		if a.HTS >= 0 {
			ss = append(ss, http2.Setting{ID: http2.SettingHeaderTableSize, Val: uint32(a.HTS)})
		}
		pc.settingsSent++
		pc.put(outItem{kind: 'S', settings: ss})
	case "finish_all":
		// one write burst: (optionally) SETTINGS with a new limit first, then the
		// trailers of every stream that is still open
		if a.MCS >= 0 {
			pc.settingsSent++
			pc.put(outItem{kind: 'S', settings: []http2.Setting{{ID: http2.SettingMaxConcurrentStreams, Val: uint32(a.MCS)}}})
			e.Probe("peer_changed_mcs")
		}
		for _, id := range pc.order {
			if ps := pc.streams[id]; ps.haveRPC && !ps.ignored && !ps.closed() {
				pc.sendTrailers(ps, SOp{})
			}
		}
	case "wupd":
		cnt := a.Count
		if cnt <= 0 {
			cnt = 1
		}
		for i := 0; i < cnt; i++ {
			if a.RPC == 0 && a.Sid == 0 {
				pc.grantConn(a.Inc)
				continue
			}
			var ps *peerStream
			if a.RPC != 0 {
				ps = pc.streamOfRPC(a.RPC)
			} else {
				ps = pc.streams[a.Sid]
			}
			if ps == nil {
				e.Probe("wupd_no_such_stream")
				break
			}
			if ps.closed() || ps.endStream && ps.ended {
				e.Probe("wupd_for_closed_stream")
			}
			if ps.remain() > 0 {
				e.Probe("wupd_before_exhaustion")
			}
			pc.grantStream(ps, a.Inc)
		}
	case "grant_all":
		pc.grantConn(a.Inc * 4)
		for _, id := range pc.order {
			if ps := pc.streams[id]; !ps.ignored {
				pc.grantStream(ps, a.Inc)
			}
		}
	case "ping", "fence":
		var d [8]byte
		d[0] = 'p'
		if a.Kind == "fence" {
			d[0] = 'F'
		}
		d[1], d[2], d[3] = byte(a.Tag>>16), byte(a.Tag>>8), byte(a.Tag)
		for i := 0; i < max(a.Count, 1); i++ {
			d[7] = byte(i)
			pc.put(outItem{kind: 'P', ping: d})
		}
	case "goaway":
		last := uint32(a.Last)
		if a.Last == -1 {
			last = pc.highestStream()
		} else if a.Last == -2 {
			last = pc.highestStream() + 2
		} else if a.Last == -3 {
			last = 1<<31 - 1
		}
		if !pc.goAwaySent || last < pc.goAwayLast {
			pc.goAwayLast = last
		}
		pc.goAwaySent = true
		pc.put(outItem{kind: 'G', last: last, code: http2.ErrCode(a.Code), debug: []byte(a.Debug)})
		w.requestQuiesce()
	case "rst":
		var ps *peerStream
		if a.RPC != 0 {
			ps = pc.streamOfRPC(a.RPC)
		} else {
			ps = pc.streams[a.Sid]
		}
		if ps == nil {
			pc.put(outItem{kind: 'R', sid: a.Sid, code: http2.ErrCode(a.Code)})
			return
		}
		ps.rstSent = true
		pc.put(outItem{kind: 'R', sid: ps.id, code: http2.ErrCode(a.Code)})
		w.noteReturned(ps, -1-a.Code)
	case "read_stall":
		t := time.Now().Add(time.Duration(a.DurNs))
		if t.After(pc.readStallTil) {
			pc.readStallTil = t
		}
	case "write_stall":
		pc.put(outItem{kind: 0, stallNs: a.DurNs})
	case "close":
		w.abrupt = true
		pc.put(outItem{kind: 'C'})
	case "kill":
		w.abrupt = true
		pc.kill("scripted kill")
	case "frame":
		cnt := max(a.Count, 1)
		for i := 0; i < cnt; i++ {
			pc.put(outItem{kind: 'F', ftype: http2.FrameType(a.FType), fflags: http2.Flags(a.FFlag), sid: a.Sid, data: hexOrFill(a.Hex, a.N)})
		}
	case "raw":
		b, _ := hex.DecodeString(a.Hex)
		pc.put(outItem{kind: 'X', data: b})
	}
}
