package wtc

import (
	"bytes"
	"context"
	"fmt"
	"io"
	"net"
	"os"
	"runtime"
	"sort"
	"strconv"
	"strings"
	"sync"
	"testing/synctest"
	"time"

	"golang.org/x/net/http2"
	"google.golang.org/grpc"
	"google.golang.org/grpc/codes"
	"google.golang.org/grpc/connectivity"
	"google.golang.org/grpc/credentials/insecure"
	"google.golang.org/grpc/grpclog"
	"google.golang.org/grpc/keepalive"
	"google.golang.org/grpc/mem"
	"google.golang.org/grpc/metadata"
	"google.golang.org/grpc/status"

	"google.golang.org/grpc/internal/zzverif/core"
	"google.golang.org/grpc/internal/zzverif/simnet"
	"google.golang.org/grpc/internal/zzverif/tap"
)

func init() {
	if os.Getenv("SIM_GRPCLOG") != "" { // debugging only
		grpclog.SetLoggerV2(grpclog.NewLoggerV2WithVerbosity(os.Stderr, os.Stderr, os.Stderr, 2))
		return
	}
	grpclog.SetLoggerV2(grpclog.NewLoggerV2(io.Discard, io.Discard, io.Discard))
}

// ---- raw codec ----

type Msg struct{ B []byte }

type rawCodec struct{}

func (rawCodec) Name() string { return "simraw" }
func (rawCodec) Marshal(v any) (mem.BufferSlice, error) {
	m, ok := v.(*Msg)
	if !ok {
		return nil, fmt.Errorf("rawCodec: %T", v)
	}
	return mem.BufferSlice{mem.SliceBuffer(m.B)}, nil
}
func (rawCodec) Unmarshal(data mem.BufferSlice, v any) error {
	m, ok := v.(*Msg)
	if !ok {
		return fmt.Errorf("rawCodec: %T", v)
	}
	m.B = data.Materialize()
	return nil
}

// ---- scenario ----

// Op is one step of a client application script.
type Op struct {
	Op string `json:"op"` // send recv recv_all close_send cancel sleep header
	N  int    `json:"n,omitempty"`
	Ns int64  `json:"ns,omitempty"`
}

type RPC struct {
	ID         uint32 `json:"id"`
	StartNs    int64  `json:"start_ns"`
	DeadlineNs int64  `json:"deadline_ns"` // 0: 10 simulated minutes
	WaitReady  bool   `json:"wait_ready,omitempty"`
	Client     []Op   `json:"client"`
	// Server[k] is the peer's script for the k-th stream that carries this RPC
	// (transparent retries open further streams); the last entry is reused.
	Server [][]SOp `json:"server"`
	Enc    string  `json:"enc,omitempty"` // grpc.UseCompressor for this call
}

type ClientCfg struct {
	StreamWindow int32 `json:"stream_window,omitempty"`
	ConnWindow   int32 `json:"conn_window,omitempty"`
	Static       bool  `json:"static_window,omitempty"`
	WriteBuf     int   `json:"write_buf,omitempty"` // -1: unbuffered, 0: default
	ReadBuf      int   `json:"read_buf,omitempty"`
	SharedWrite  bool  `json:"shared_write_buf,omitempty"`
	DisableRetry bool  `json:"disable_retry,omitempty"`
	MaxRecv      int   `json:"max_recv,omitempty"`
	KATimeNs     int64 `json:"ka_time_ns,omitempty"`
	KATimeoutNs  int64 `json:"ka_timeout_ns,omitempty"`
	KAPermit     bool  `json:"ka_permit,omitempty"`
	NoIdle       bool  `json:"no_idle,omitempty"`
	LegacyDecomp bool  `json:"legacy_decompressor,omitempty"` // grpc.WithDecompressor(gzip)
	MinConnectNs int64 `json:"min_connect_ns,omitempty"`
}

type Scenario struct {
	Sched   core.Sched     `json:"sched"`
	Oracles []string       `json:"oracles"`
	Net     simnet.Cfg     `json:"net"`
	Faults  []simnet.Fault `json:"faults"`
	Client  ClientCfg      `json:"client"`
	Peer    PeerCfg        `json:"peer"`
	RPCs    []RPC          `json:"rpcs"`
	Actions []Action       `json:"actions,omitempty"`
	// EndNs: the run lasts at least this long (keepalive timelines)
	EndNs int64 `json:"end_ns,omitempty"`
}

func (s *Scenario) SchedP() *core.Sched { return &s.Sched }

func (s *Scenario) Validate() error {
	seen := map[uint32]bool{}
	for i := range s.RPCs {
		r := &s.RPCs[i]
		if r.ID == 0 || seen[r.ID] {
			return fmt.Errorf("bad or duplicate rpc id %d", r.ID)
		}
		seen[r.ID] = true
	}
	if s.has("keepalive") && (s.Client.KATimeNs <= 0 || s.Client.KATimeoutNs <= 0) {
		return fmt.Errorf("keepalive oracle without keepalive parameters")
	}
	return nil
}

func (s *Scenario) Shape() string {
	nc, ns := 0, 0
	kinds := map[string]int{}
	for _, r := range s.RPCs {
		nc += len(r.Client)
		for _, sv := range r.Server {
			ns += len(sv)
			for _, o := range sv {
				kinds["s_"+o.Op]++
			}
		}
		for _, o := range r.Client {
			kinds[o.Op]++
		}
	}
	for _, a := range s.Actions {
		kinds["a_"+a.Kind]++
	}
	var ks []string
	for k, v := range kinds {
		ks = append(ks, fmt.Sprintf("%s%d", k, v))
	}
	sort.Strings(ks)
	return fmt.Sprintf("rpcs=%d cops=%d sops=%d faults=%d %s sg=%s cg=%s", len(s.RPCs), nc, ns, len(s.Faults), strings.Join(ks, ","), s.Peer.SGrant.Mode, s.Peer.CGrant.Mode)
}

func (s *Scenario) has(oracle string) bool {
	for _, o := range s.Oracles {
		if o == oracle {
			return true
		}
	}
	return false
}

// ---- run state ----

type sentMsg struct {
	n         int // application payload length (before compression)
	wire      int // payload bytes on the wire
	flag      int
	lie       int
	enc       string
	truncated bool
	overrun   bool // class B: the message ends beyond the client's stream window
}

type recvRec struct {
	n     int
	att   int
	patOK bool
	at    time.Time
}

type streamRef struct {
	conn int
	id   uint32
}

type rpcState struct {
	r            *RPC
	cStarted     []int
	cSubmitted   []int
	clientStatus *status.Status
	clientDone   bool
	cancelled    bool
	inCall       string // API call the application goroutine is blocked in ("" none)
	callStart    time.Time
	idleUntil    time.Time // the application script sleeps until then
	startedAt    time.Time
	deadline     time.Time
	finishedAt   time.Time
	hdr          metadata.MD
	trailer      metadata.MD
	recvd        []recvRec
	recvBytes    [][]byte // framing oracle: the messages as delivered
	// wire
	streams     []streamRef // streams that carried this RPC (client HEADERS), in order
	peerStreams []*peerStream
	// what the peer did per attempt
	peerSent     map[int][]sentMsg
	peerReturned map[int]int // att -> grpc-status code, or -1-http2 code for RST
	finalCount   int
}

type run struct {
	e        *core.Env
	sc       *Scenario
	net      *simnet.Net
	led      *tap.Ledger
	rpcs     map[uint32]*rpcState
	ids      []uint32
	faulty   bool
	trace    bool
	cc       *grpc.ClientConn
	peers    []*peerConn
	pairs    []*simnet.Pair
	views    map[int]*cview
	helpers  sync.WaitGroup
	attempts map[uint32]int
	lis      *simnet.Listener
	// quiescer
	qsig      chan struct{}
	qstop     chan struct{}
	qdone     chan struct{}
	qwant     bool
	nquiesce  int
	hooks     []func() // run at every quiescent point
	dlDue     []uint32
	cntPulled map[cntKey]int64
	abrupt    bool // the peer closed a connection abruptly on purpose
	spies     map[int]*spyConn
	t0        time.Time
	closingAt time.Time
}

// spyConn is the client's end of a connection as handed to grpc: it records
// when the client closes it (simnet does not expose that).
type spyConn struct {
	net.Conn
	closed   bool
	closedAt time.Time
}

func (c *spyConn) Close() error {
	if !c.closed {
		c.closed = true
		c.closedAt = time.Now()
	}
	return c.Conn.Close()
}

func (w *run) dial(ctx context.Context, addr string) (net.Conn, error) {
	c, err := w.net.Dial(ctx, addr)
	if err != nil {
		return nil, err
	}
	sp := &spyConn{Conn: c}
	w.spies[c.(*simnet.Conn).P.Index] = sp
	return sp, nil
}

func (w *run) peer(idx int) *peerConn {
	if idx >= 0 && idx < len(w.peers) {
		return w.peers[idx]
	}
	return nil
}

func (w *run) peerStreamOf(st *rpcState, ref streamRef) *peerStream {
	for _, ps := range st.peerStreams {
		if ps.pc.idx == ref.conn && ps.id == ref.id {
			return ps
		}
	}
	return nil
}

func (w *run) Submitted(k tap.StreamKey) []int {
	if st := w.rpcs[k.RPC]; st != nil && k.Dir == 'c' {
		return st.cSubmitted
	}
	return nil
}

func (w *run) Started(k tap.StreamKey) []int {
	if st := w.rpcs[k.RPC]; st != nil && k.Dir == 'c' {
		return st.cStarted
	}
	return nil
}

func (w *run) noteSent(ps *peerStream, m sentMsg) {
	if st := w.rpcs[ps.rpc]; st != nil {
		st.peerSent[ps.att] = append(st.peerSent[ps.att], m)
	}
}

func (w *run) noteReturned(ps *peerStream, code int) {
	if st := w.rpcs[ps.rpc]; st != nil && ps.haveRPC {
		if _, ok := st.peerReturned[ps.att]; !ok {
			st.peerReturned[ps.att] = code
		}
	}
}

const defaultDeadline = 10 * time.Minute

// Run executes a scenario.
func Run(e *core.Env, sc *Scenario) {
	w := &run{e: e, sc: sc, rpcs: map[uint32]*rpcState{}, views: map[int]*cview{}, attempts: map[uint32]int{},
		qsig: make(chan struct{}, 1), qstop: make(chan struct{}), qdone: make(chan struct{}), cntPulled: map[cntKey]int64{}, spies: map[int]*spyConn{}}
	w.faulty = len(sc.Faults) > 0
	w.trace = sc.has("trace")
	w.t0 = time.Now()
	w.net = simnet.New(e, sc.Net, sc.Faults)
	w.led = tap.NewLedger(e, w)
	// the liveness and fairness oracles read the ledger's window accounting
	w.led.CheckWindows = sc.has("windows") || sc.has("live") || sc.has("fair")
	w.led.CheckBytes = sc.has("bytes")
	w.led.CheckStreams = sc.has("streams")
	// the concurrent-streams ledger of this world is cview.opened (a stream
	// counts as closed for the client once the server's END_STREAM or RST_STREAM
	// has been delivered, or the client has written RST_STREAM)
	w.led.CheckMCS = false
	w.net.OnConn = func(p *simnet.Pair) {
		w.pairs = append(w.pairs, p)
		w.views[p.Index] = newCView(w, p.Index)
		tap.Attach(e, p, w.sink)
	}
	for i := range sc.RPCs {
		r := &sc.RPCs[i]
		w.rpcs[r.ID] = &rpcState{r: r, peerSent: map[int][]sentMsg{}, peerReturned: map[int]int{}}
		w.ids = append(w.ids, r.ID)
	}
	sort.Slice(w.ids, func(i, j int) bool { return w.ids[i] < w.ids[j] })
	curRun = w

	// scripted server
	w.lis = w.net.Listen("srv0")
	acceptDone := make(chan struct{})
	go func() {
		defer close(acceptDone)
		for {
			c, err := w.lis.Accept()
			if err != nil {
				return
			}
			sc := c.(*simnet.Conn)
			pc := w.newPeerConn(c, sc.P.Index)
			for len(w.peers) <= pc.idx {
				w.peers = append(w.peers, nil)
			}
			w.peers[pc.idx] = pc
			w.helpers.Add(3)
			go pc.reader()
			go pc.writer()
			go pc.delayer()
		}
	}()

	// client
	dopts := []grpc.DialOption{grpc.WithTransportCredentials(insecure.NewCredentials()), grpc.WithContextDialer(w.dial), grpc.WithDefaultCallOptions(grpc.ForceCodecV2(rawCodec{}))}
	cc := sc.Client
	if cc.Static {
		// static means static: without an explicit size the BDP estimator stays on
		dopts = append(dopts, grpc.WithStaticStreamWindowSize(max(cc.StreamWindow, 65535)))
		dopts = append(dopts, grpc.WithStaticConnWindowSize(max(cc.ConnWindow, 65535)))
	} else {
		if cc.StreamWindow > 0 {
			dopts = append(dopts, grpc.WithInitialWindowSize(cc.StreamWindow))
		}
		if cc.ConnWindow > 0 {
			dopts = append(dopts, grpc.WithInitialConnWindowSize(cc.ConnWindow))
		}
	}
	if cc.WriteBuf != 0 {
		dopts = append(dopts, grpc.WithWriteBufferSize(max(cc.WriteBuf, 0)))
	}
	if cc.ReadBuf != 0 {
		dopts = append(dopts, grpc.WithReadBufferSize(max(cc.ReadBuf, 0)))
	}
	if cc.SharedWrite {
		dopts = append(dopts, grpc.WithSharedWriteBuffer(true))
	}
	if cc.DisableRetry {
		dopts = append(dopts, grpc.WithDisableRetry())
	}
	if cc.NoIdle {
		dopts = append(dopts, grpc.WithIdleTimeout(0))
	}
	if cc.MaxRecv > 0 {
		dopts = append(dopts, grpc.WithDefaultCallOptions(grpc.MaxCallRecvMsgSize(cc.MaxRecv)))
	}
	if cc.KATimeNs > 0 {
		dopts = append(dopts, grpc.WithKeepaliveParams(keepalive.ClientParameters{Time: time.Duration(cc.KATimeNs), Timeout: time.Duration(cc.KATimeoutNs), PermitWithoutStream: cc.KAPermit}))
	}
	if cc.LegacyDecomp {
		dopts = append(dopts, grpc.WithDecompressor(grpc.NewGZIPDecompressor()))
	}
	conn, err := grpc.NewClient("passthrough:///srv0", dopts...)
	if err != nil {
		e.Violate("harness", "NewClient: %v", err)
		w.lis.Close()
		<-acceptDone
		w.net.Shutdown()
		return
	}
	w.cc = conn

	go w.quiescer()

	var wg sync.WaitGroup
	for _, id := range w.ids {
		st := w.rpcs[id]
		wg.Add(1)
		go func() {
			defer wg.Done()
			w.clientRPC(conn, st)
		}()
	}
	for _, a := range sc.Actions {
		wg.Add(1)
		go func() {
			defer wg.Done()
			time.Sleep(time.Duration(a.AtNs))
			w.doAction(a)
		}()
	}
	if sc.EndNs > 0 {
		wg.Add(1)
		go func() { defer wg.Done(); time.Sleep(time.Duration(sc.EndNs)) }()
	}
	wg.Wait()
	e.Logf("all client goroutines done")
	close(w.qstop)
	<-w.qdone
	if w.settle() {
		w.atQuiescence(true)
	}
	w.closingAt = time.Now()
	w.checkAtEnd()
	if sc.has("stacks") {
		e.LogStacks("at the end")
	}
	// ClientConn.Close must return; if it does not, the run goes on without it
	// (the blocked goroutine is then also reported as stuck)
	closed := make(chan struct{})
	go func() { conn.Close(); close(closed) }()
	select {
	case <-closed:
	case <-time.After(10 * time.Minute):
		e.Violate("clientconn_close_hangs", "ClientConn.Close has not returned after 10 minutes (virtual)")
	}
	w.lis.Close()
	<-acceptDone
	// the client closes its connections; a transport whose writer is stuck
	// (blackhole, back-pressure) is closed by grpc after a few seconds at most
	time.Sleep(20 * time.Second)
	w.settle()
	w.afterClose()
	for _, pc := range w.peers {
		if pc != nil {
			pc.kill("teardown")
		}
	}
	w.helpers.Wait()
	w.net.Shutdown()
	time.Sleep(time.Hour)
	synctest.Wait()
	e.Notes["ledger"] = w.led.Summary()
	curRun = nil
}

// curRun lets process-global hooks (the counting compressor) find the run.
var curRun *run

// ---- quiescence ----

func (w *run) requestQuiesce() {
	w.qwant = true
	select {
	case w.qsig <- struct{}{}:
	default:
	}
}

// quiescer is the only goroutine that calls synctest.Wait while the scenario
// is running: at every "check" action and after every GOAWAY it reaches a
// quiescent point (S4) and evaluates the quiescence oracles.
func (w *run) quiescer() {
	defer close(w.qdone)
	for {
		select {
		case <-w.qsig:
		case <-w.qstop:
			return
		}
		select {
		case <-w.qstop:
			return
		default:
		}
		w.qwant = false
		if w.settle() {
			w.atQuiescence(false)
		}
	}
}

func (w *run) peerReadStalled() time.Duration {
	var d time.Duration
	now := time.Now()
	for _, pc := range w.peers {
		if pc != nil && !pc.dead {
			if x := pc.readStallTil.Sub(now); x > d {
				d = x
			}
		}
	}
	return d
}

// settle reaches quiescence in the sense of soundness rule S4: every goroutine
// blocked, no byte travelling on the simulated network, no writer inside an
// injected stall, the peer not deliberately refusing to read, and nothing
// queued in the peer's writer.
func (w *run) settle() bool {
	quiet := 0
	step := time.Duration(w.sc.Net.LatencyNs+w.sc.Net.DialDelayNs) + 10*time.Microsecond
	if w.sc.Net.StallPct > 0 {
		step += time.Duration(w.sc.Net.StallNs)
	}
	lastSeq := uint64(0)
	for i := 0; i < 400 && quiet < 6; i++ {
		synctest.Wait()
		// any event since the previous round (a frame on the tap, a log line)
		// means that something is still moving, e.g. a goroutine that the
		// runtime's spin guard had put to sleep for a microsecond
		moved := w.e.Seq != lastSeq
		lastSeq = w.e.Seq
		d := w.net.InFlightDelay()
		if x := w.peerReadStalled(); x > d {
			d = x
		}
		pending := false
		for _, pc := range w.peers {
			if pc != nil && !pc.dead && len(pc.q) > 0 {
				pending = true
			}
			if pc != nil && !pc.dead && len(pc.delayed) > 0 {
				// a grant the peer has decided on but not yet sent: wait for it
				if x := time.Until(pc.delayed[0].at); x > d {
					d = x
				}
			}
		}
		if d <= 0 && !pending && !moved && !spinSleeping() {
			quiet++
			if quiet >= 6 {
				// nothing has happened for six rounds and nothing is pending now.
				// runtime.Stack (spinSleeping) stops the world and may leave a
				// preemption request on this goroutine, which would show up as an
				// extra, timing-dependent reschedule later: block once more for a
				// nanosecond so that it is absorbed here, then make sure that still
				// nothing has moved. The caller evaluates its oracles at this point.
				time.Sleep(time.Nanosecond)
				synctest.Wait()
				if w.e.Seq == lastSeq && w.net.InFlightDelay() <= 0 {
					return true
				}
				quiet = 0
				continue
			}
		} else {
			quiet = 0
		}
		time.Sleep(d + step)
	}
	synctest.Wait()
	w.e.Probe("settle_gave_up")
	return false
}

var stackBuf = make([]byte, 1<<20)

// spinSleeping reports whether some goroutine is inside a virtual-time sleep
// that the runtime's spin guard injected at a busy instant (rt/mkpatch.py):
// such a goroutine looks durably blocked to synctest.Wait although it has
// work to do, so the world is not quiescent.
func spinSleeping() bool {
	n := runtime.Stack(stackBuf, true)
	b := stackBuf[:n]
	// The injected sleep is a call of the runtime's sleep from a yield site; in
	// a traceback it looks like time.Sleep(d) with d = 1000<<(3*level) ns. A
	// scripted sleep of exactly such a duration is mistaken for one, which only
	// postpones the quiescent point.
	for len(b) > 0 {
		i := bytes.Index(b, []byte("\n\n"))
		g := b
		if i >= 0 {
			g, b = b[:i], b[i+2:]
		} else {
			b = nil
		}
		nl := bytes.IndexByte(g, '\n')
		if nl < 0 {
			continue
		}
		hdr, rest := g[:nl], g[nl+1:]
		if !bytes.Contains(hdr, []byte("[sleep")) || !bytes.Contains(hdr, []byte("synctest bubble")) || !bytes.HasPrefix(rest, []byte("time.Sleep(0x")) {
			continue
		}
		var v int64
		for _, c := range rest[len("time.Sleep(0x"):] {
			switch {
			case c >= '0' && c <= '9':
				v = v<<4 | int64(c-'0')
			case c >= 'a' && c <= 'f':
				v = v<<4 | int64(c-'a'+10)
			default:
				goto done
			}
		}
	done:
		for lv := 0; lv <= 8; lv++ {
			if v == 1000<<(3*lv) {
				return true
			}
		}
	}
	return false
}

func (w *run) st(err error) *status.Status {
	if err == nil {
		return status.New(codes.OK, "")
	}
	s, ok := status.FromError(err)
	if !ok && err != io.EOF {
		w.e.Violate("non_status_error", "API returned an error without a gRPC status: %T %v", err, err)
	}
	return s
}

func errStr(err error) string {
	if err == nil {
		return "nil"
	}
	if err == io.EOF {
		return "EOF"
	}
	if s, ok := status.FromError(err); ok {
		return s.Code().String()
	}
	return "non-status:" + err.Error()
}

// api runs one blocking client API call and records which call the
// application goroutine is in. The deadline oracle is evaluated at the
// quiescent point that deadlineWatch requests shortly after the RPC's
// deadline: by then every call must have returned. (Comparing return times
// with the deadline directly would be unsound: the runtime's spin guard may
// put the calling goroutine to sleep for a virtual duration of its own.)
func (w *run) api(st *rpcState, name string, f func() error) error {
	t0 := time.Now()
	st.inCall = name
	st.callStart = t0
	err := f()
	st.inCall = ""
	if w.sc.has("deadline") && time.Now().After(st.deadline.Add(deadlineSlack)) && t0.Before(st.deadline) {
		w.e.Probe("api_returned_late_by_clock")
	}
	return err
}

const deadlineSlack = 10 * time.Millisecond

// deadlineWatch asks for a quiescent point deadlineSlack after the deadline.
func (w *run) deadlineWatch(st *rpcState, done chan struct{}) {
	defer w.helpers.Done()
	t := time.NewTimer(time.Until(st.deadline.Add(deadlineSlack)))
	select {
	case <-t.C:
		w.dlDue = append(w.dlDue, st.r.ID)
		w.requestQuiesce()
	case <-done:
		t.Stop()
	}
}

func (w *run) checkDeadlines() {
	due := w.dlDue
	w.dlDue = nil
	for _, id := range due {
		st := w.rpcs[id]
		if !st.clientDone && st.inCall != "" && st.callStart.Before(st.deadline) {
			w.e.Violate("blocked_past_deadline", "rpc %d: %s is still blocked at a quiescent point more than %v after the RPC's deadline", id, st.inCall, deadlineSlack)
		}
		w.e.Probe("deadline_checked_at_quiescence")
	}
}

func (w *run) clientRPC(conn *grpc.ClientConn, st *rpcState) {
	e := w.e
	r := st.r
	if r.StartNs > 0 {
		time.Sleep(time.Duration(r.StartNs))
	}
	d := defaultDeadline
	if r.DeadlineNs > 0 {
		d = time.Duration(r.DeadlineNs)
	}
	st.startedAt = time.Now()
	st.deadline = st.startedAt.Add(d)
	ctx, cancel := context.WithDeadline(context.Background(), st.deadline)
	defer cancel()
	if w.sc.has("deadline") {
		done := make(chan struct{})
		defer close(done)
		w.helpers.Add(1)
		go w.deadlineWatch(st, done)
	}
	ctx = metadata.NewOutgoingContext(ctx, metadata.Pairs("x-sim-rpc", strconv.FormatUint(uint64(r.ID), 10)))
	var opts []grpc.CallOption
	if r.WaitReady {
		opts = append(opts, grpc.WaitForReady(true))
	}
	if r.Enc != "" {
		opts = append(opts, grpc.UseCompressor(r.Enc))
	}
	e.Logf("rpc %d start", r.ID)
	var cs grpc.ClientStream
	final := func(err error) {
		st.finalCount++
		if st.clientDone {
			return
		}
		st.clientDone = true
		st.finishedAt = time.Now()
		if err == io.EOF {
			st.clientStatus = status.New(codes.OK, "")
		} else {
			st.clientStatus = w.st(err)
		}
		if cs != nil {
			st.trailer = cs.Trailer()
		}
		e.Logf("rpc %d final status %v %q", r.ID, st.clientStatus.Code(), st.clientStatus.Message())
	}
	err := w.api(st, "NewStream", func() (err error) {
		cs, err = conn.NewStream(ctx, &grpc.StreamDesc{ServerStreams: true, ClientStreams: true}, "/sim.Svc/M", opts...)
		return err
	})
	if err != nil {
		cs = nil
		final(err)
		return
	}
	recvOne := func() error {
		m := &Msg{}
		err := w.api(st, "RecvMsg", func() error { return cs.RecvMsg(m) })
		if err != nil {
			final(err)
			return err
		}
		w.noteRecv(st, m.B, cs)
		return nil
	}
	sendFailed := false
	for oi, op := range r.Client {
		if st.clientDone {
			break
		}
		switch op.Op {
		case "send":
			if sendFailed {
				continue
			}
			b := make([]byte, op.N)
			tap.FillPat(b, r.ID, 'c', len(st.cStarted))
			st.cStarted = append(st.cStarted, op.N)
			err := w.api(st, "SendMsg", func() error { return cs.SendMsg(&Msg{B: b}) })
			e.Logf("rpc %d op %d send %d -> %v", r.ID, oi, op.N, errStr(err))
			if err == nil {
				st.cSubmitted = append(st.cSubmitted, op.N)
			} else if err != io.EOF {
				final(err)
			} else {
				sendFailed = true // the status comes from RecvMsg
			}
		case "recv":
			err := recvOne()
			e.Logf("rpc %d op %d recv -> %v", r.ID, oi, errStr(err))
		case "recv_all":
			for {
				if err := recvOne(); err != nil {
					e.Logf("rpc %d op %d recv_all end -> %v", r.ID, oi, errStr(err))
					break
				}
			}
		case "close_send":
			err := w.api(st, "CloseSend", func() error { return cs.CloseSend() })
			e.Logf("rpc %d op %d close_send -> %v", r.ID, oi, errStr(err))
		case "cancel":
			st.cancelled = true
			cancel()
			e.Logf("rpc %d op %d cancel", r.ID, oi)
		case "sleep":
			st.idleUntil = time.Now().Add(time.Duration(op.Ns))
			time.Sleep(time.Duration(op.Ns))
		case "header":
			var h metadata.MD
			err := w.api(st, "Header", func() (err error) { h, err = cs.Header(); return err })
			st.hdr = h
			e.Logf("rpc %d op %d header -> %v", r.ID, oi, errStr(err))
		}
	}
	if !st.clientDone {
		// scripts end by draining the stream so that every RPC reaches a final status
		for {
			if err := recvOne(); err != nil {
				break
			}
		}
	}
	if w.sc.has("terminal") && cs != nil {
		// the status is terminal: a further RecvMsg fails at once, it neither
		// blocks nor delivers a message
		m := &Msg{}
		t0 := time.Now()
		err := cs.RecvMsg(m)
		if err == nil {
			// Not part of the statement (the API leaves a call after a terminal
			// error undefined): grpc-go still hands out messages that were buffered
			// before the error. Counted only.
			e.Probe("message_after_final_status")
		} else if d := time.Since(t0); d > 0 {
			e.Probe("recv_after_final_status_took_time")
		}
	}
}

func (w *run) noteRecv(st *rpcState, b []byte, cs grpc.ClientStream) {
	att := 0
	if h, err := cs.Header(); err == nil {
		if v := h.Get("x-sim-att"); len(v) == 1 {
			att, _ = strconv.Atoi(v[0])
		}
	}
	idx := 0
	for _, r := range st.recvd {
		if r.att == att {
			idx++
		}
	}
	ok := tap.CheckPat(b, st.r.ID^uint32(att)<<24, 's', idx, 0) < 0
	st.recvd = append(st.recvd, recvRec{n: len(b), att: att, patOK: ok, at: time.Now()})
	if w.sc.has("framing") {
		st.recvBytes = append(st.recvBytes, b)
	}
	w.e.Logf("rpc %d received message %d (att %d) len %d", st.r.ID, idx, att, len(b))
}

// ---- wire view (the harness' own reading of the tap, for the oracles that
// the shared ledger does not implement) ----

type cstream struct {
	id      uint32
	rpc     uint32
	haveRPC bool
	hdrSeq  uint64
	hdrAt   time.Time
	sent    int64
	cEnded  bool
	cRst    bool
	pEndedD bool
	pRstD   bool
	pfx     [5]byte
	pfxN    int
	msgLen  int
	msgOff  int
	inMsg   bool
	lateGA  bool // HEADERS written after a GOAWAY had been delivered
	// fairness (quiet-peer phase)
	lastIdx   int
	part      bool
	partSince int
	frames    int
	closedAt  time.Time
}

// openForClient: the stream still counts against MAX_CONCURRENT_STREAMS from
// the client's point of view: not reset by either side and the server has not
// ended it (a gRPC client is done with a stream once the trailers arrived).
func (s *cstream) markClosed() {
	if s.closedAt.IsZero() {
		s.closedAt = time.Now()
	}
}

func (s *cstream) openForClient() bool { return !(s.cRst || s.pRstD || s.pEndedD) }

type goAwayRec struct {
	seq      uint64
	at       time.Time
	last     uint32
	code     http2.ErrCode
	quiesced bool
	illegal  bool // larger id than an earlier GOAWAY
	even     bool // non-zero even id
}

// connErr: grpc-go's own handling treats this GOAWAY as a connection error.
func (g goAwayRec) connErr() bool { return g.illegal || g.even }

type cview struct {
	w          *run
	idx        int
	streams    map[uint32]*cstream
	order      []uint32
	mcs        int64
	mcsPending []int64
	lastNewID  uint32
	maxOpen    int
	goaways    []goAwayRec
	// fairness
	peerWrites int
	fences     map[[8]byte]int
	quiet      bool
	fidx       int
	// keepalive / close observation
	rx          []time.Time // delivery times of complete frames to the client
	prefaceAt   time.Time
	cliGoAwayAt time.Time
	cliGoAway   bool
	srvDead     bool // the tap could not decode the server's bytes any more
	rl          *recvLedger
}

func newCView(w *run, idx int) *cview {
	return &cview{w: w, idx: idx, streams: map[uint32]*cstream{}, mcs: -1, fences: map[[8]byte]int{}, rl: newRecvLedger()}
}

func (v *cview) goAwayMin() (uint32, bool) {
	if len(v.goaways) == 0 {
		return 0, false
	}
	m := v.goaways[0].last
	for _, g := range v.goaways {
		if g.last < m {
			m = g.last
		}
	}
	return m, true
}

func (w *run) sink(f *tap.Frame) {
	if w.trace {
		w.e.Logf("frame conn=%d %c%c type=%v stream=%d len=%d flags=%x inc=%d code=%v last=%d", f.Conn, f.From, f.Phase, f.Type, f.StreamID, f.Length, f.Flags, f.Increment, f.ErrCode, f.LastStreamID)
	}
	v := w.views[f.Conn]
	switch {
	case f.From == 'c' && f.Phase == 'w':
		if f.Type == http2.FrameData && f.Length == 0 {
			w.e.Probe("empty_data_frame")
		}
		w.led.Sink(f)
		v.clientWrote(f)
	case f.From == 's' && f.Phase == 'd':
		w.led.Sink(f)
		v.delivered(f)
	case f.From == 's' && f.Phase == 'w':
		v.peerWrote(f)
	}
	if w.sc.has("recvflow") {
		w.c04Sink(v, f)
	}
}

func (v *cview) peerWrote(f *tap.Frame) {
	v.peerWrites++
	v.quiet = false
	if f.Type == http2.FramePing && !f.Ack() && f.PingData[0] == 'F' {
		v.fences[f.PingData] = v.peerWrites
	}
}

func (v *cview) delivered(f *tap.Frame) {
	w := v.w
	now := time.Now()
	v.rx = append(v.rx, now)
	switch f.Type {
	case http2.FrameSettings:
		if f.Ack() {
			return
		}
		if v.prefaceAt.IsZero() {
			v.prefaceAt = now
		}
		m := int64(-2)
		for _, s := range f.Settings {
			if s.ID == http2.SettingMaxConcurrentStreams {
				m = int64(s.Val)
			}
		}
		v.mcsPending = append(v.mcsPending, m)
	case http2.FrameRSTStream:
		if s := v.streams[f.StreamID]; s != nil {
			s.pRstD = true
			s.markClosed()
		}
	case http2.FrameData, http2.FrameHeaders:
		if f.EndStream() {
			if s := v.streams[f.StreamID]; s != nil {
				s.pEndedD = true
				s.markClosed()
			}
		}
	case http2.FrameGoAway:
		g := goAwayRec{seq: f.Seq, at: now, last: f.LastStreamID, code: f.ErrCode, even: f.LastStreamID > 0 && f.LastStreamID%2 == 0}
		for _, o := range v.goaways {
			if f.LastStreamID > o.last {
				g.illegal = true
			}
		}
		v.goaways = append(v.goaways, g)
		w.e.Probe("goaway_delivered")
		w.e.Logf("conn %d: GOAWAY(last=%d code=%v) delivered", v.idx, f.LastStreamID, f.ErrCode)
	}
}

func (v *cview) clientWrote(f *tap.Frame) {
	w := v.w
	e := w.e
	switch f.Type {
	case http2.FrameHeaders:
		s := v.streams[f.StreamID]
		if s != nil {
			return
		}
		s = &cstream{id: f.StreamID, hdrSeq: f.Seq, hdrAt: time.Now()}
		v.streams[f.StreamID] = s
		v.order = append(v.order, f.StreamID)
		if x := f.Header("x-sim-rpc"); len(x) == 1 {
			if n, err := strconv.ParseUint(x[0], 10, 32); err == nil {
				s.rpc, s.haveRPC = uint32(n), true
				if st := w.rpcs[s.rpc]; st != nil {
					// attempt order: a later attempt is never on an older connection,
					// and on the same connection it has the higher id (the order in
					// which HEADERS reach the wire may differ on a slow connection)
					st.streams = append(st.streams, streamRef{v.idx, s.id})
					sort.Slice(st.streams, func(i, j int) bool {
						a, b := st.streams[i], st.streams[j]
						return a.conn < b.conn || a.conn == b.conn && a.id < b.id
					})
				}
			}
		}
		if w.sc.has("mcs") {
			v.opened(s)
		}
		if len(v.goaways) > 0 {
			s.lateGA = true
			e.Probe("headers_after_goaway_delivered")
			if w.sc.has("goaway") {
				var bad, badErr *goAwayRec
				for i := range v.goaways {
					if g := &v.goaways[i]; g.quiesced {
						if g.connErr() {
							badErr = g
						} else {
							bad = g
						}
					}
				}
				if bad != nil {
					e.Violate("new_stream_after_goaway", "client opened stream %d on conn %d after the first quiescent point following the delivery of GOAWAY(last=%d)", s.id, v.idx, bad.last)
				} else if badErr != nil {
					// same rule, separate name: the GOAWAY is one that grpc-go itself
					// classifies as a connection error (even id, or larger than an earlier one)
					e.Violate("goaway_connection_error_not_enforced", "client opened stream %d on conn %d after the first quiescent point following the delivery of GOAWAY(last=%d), which it classifies as a connection error", s.id, v.idx, badErr.last)
				}
			}
		}
		if f.EndStream() {
			s.cEnded = true
		}
	case http2.FrameData:
		s := v.streams[f.StreamID]
		if s == nil {
			return
		}
		s.sent += int64(f.Length)
		s.frames++
		v.feed(s, f.Data)
		if f.EndStream() {
			s.cEnded = true
		}
		if w.sc.has("fair") {
			v.fairness(s, f)
		}
	case http2.FrameRSTStream:
		if s := v.streams[f.StreamID]; s != nil {
			s.cRst = true
			s.part = false
			s.markClosed()
		}
	case http2.FrameSettings:
		if f.Ack() && len(v.mcsPending) > 0 {
			if m := v.mcsPending[0]; m != -2 {
				v.mcs = m
			}
			v.mcsPending = v.mcsPending[1:]
		}
	case http2.FramePing:
		if f.Ack() && f.PingData[0] == 'F' {
			if n, ok := v.fences[f.PingData]; ok && n == v.peerWrites {
				v.startQuiet()
				e.Probe("quiet_phase_started")
			}
		}
	case http2.FrameGoAway:
		v.cliGoAway = true
		v.cliGoAwayAt = time.Now()
	}
}

// opened: C13 wire rule at every HEADERS that opens a stream.
func (v *cview) opened(s *cstream) {
	e := v.w.e
	if s.id%2 == 0 {
		e.Violate("even_stream_id", "client opened even stream id %d on conn %d", s.id, v.idx)
	}
	if s.id <= v.lastNewID {
		e.Violate("stream_id_not_increasing", "client opened stream %d after %d on conn %d", s.id, v.lastNewID, v.idx)
	}
	v.lastNewID = s.id
	open := 0
	for _, x := range v.streams {
		if x.openForClient() {
			open++
		}
		if x.pEndedD && !x.cEnded && !x.cRst && !x.pRstD {
			e.Probe("stream_half_closed_at_new_stream")
		}
	}
	if open > v.maxOpen {
		v.maxOpen = open
	}
	// the limit the client has acknowledged; while a SETTINGS is delivered but
	// not yet acknowledged either value is acceptable (the larger one)
	lim := v.mcs
	for _, p := range v.mcsPending {
		if p == -2 {
			continue
		}
		if lim != -1 && (p == -1 || p > lim) {
			lim = p
		}
	}
	if lim >= 0 {
		if int64(open) == lim {
			e.Probe("at_max_concurrent_streams")
		}
		if int64(open) > lim {
			e.Violate("max_concurrent_streams_exceeded", "client has %d streams open on conn %d after opening stream %d; the server's MAX_CONCURRENT_STREAMS is %d", open, v.idx, s.id, lim)
		}
	}
}

// feed tracks how much of the current message is still to come.
func (v *cview) feed(s *cstream, b []byte) {
	for len(b) > 0 {
		if !s.inMsg {
			n := copy(s.pfx[s.pfxN:], b)
			s.pfxN += n
			b = b[n:]
			if s.pfxN < 5 {
				return
			}
			s.pfxN = 0
			s.msgLen = int(uint32(s.pfx[1])<<24 | uint32(s.pfx[2])<<16 | uint32(s.pfx[3])<<8 | uint32(s.pfx[4]))
			s.msgOff = 0
			s.inMsg = s.msgLen > 0
			continue
		}
		n := s.msgLen - s.msgOff
		if n > len(b) {
			n = len(b)
		}
		s.msgOff += n
		b = b[n:]
		if s.msgOff == s.msgLen {
			s.inMsg = false
		}
	}
}

// fairness: inside a quiet-peer phase (the client has acknowledged a fence
// PING that the peer sent after all its other frames, and the peer has
// written nothing since) the writer's knowledge of every window equals the
// ledger's. A stream participates while the first DATA frame of its current
// message is on the wire, the message has a remainder (known from the length
// prefix) and its stream window is positive: such a stream is queued in the
// writer's round-robin list. Between two consecutive DATA frames of one
// participant every other stream that participated all the time in between
// gets at least one DATA frame.
func (v *cview) participant(s *cstream) bool {
	if !s.inMsg || s.msgOff >= s.msgLen || s.cRst || s.cEnded || s.pRstD || s.pEndedD {
		return false
	}
	sa, _, _, ok := v.w.led.StreamAvail(v.idx, 'c', s.id)
	return ok && sa > 0
}

func (v *cview) startQuiet() {
	v.quiet = true
	v.fidx = 0
	for _, id := range v.order {
		s := v.streams[id]
		s.lastIdx = -1
		s.part = v.participant(s)
		s.partSince = 0
	}
}

func (v *cview) fairness(s *cstream, f *tap.Frame) {
	if !v.quiet {
		return
	}
	e := v.w.e
	v.fidx++
	if s.lastIdx >= 0 && s.part && s.partSince <= s.lastIdx {
		// s sent at lastIdx, stayed a participant, and sends again now
		checked := false
		for _, id := range v.order {
			b := v.streams[id]
			if b == s || !b.part || b.partSince > s.lastIdx {
				continue
			}
			checked = true
			if b.lastIdx < s.lastIdx {
				e.Violate("round_robin_violated", "conn %d: in a quiet-peer phase stream %d sent two DATA frames (phase frames %d and %d) while stream %d had a message remainder of %d bytes and a positive window all the time and was not served in between", v.idx, s.id, s.lastIdx, v.fidx, b.id, b.msgLen-b.msgOff)
				v.quiet = false
				return
			}
		}
		if checked {
			e.Probe("fair_turn_checked")
		}
	}
	s.lastIdx = v.fidx
	now := v.participant(s) && !f.EndStream()
	if now && !s.part {
		s.partSince = v.fidx
	}
	s.part = now
}

// ---- quiescence oracles ----

func (w *run) liveConns() []*peerConn {
	var out []*peerConn
	for _, pc := range w.peers {
		if pc != nil && !pc.dead && pc.prefaceOK {
			out = append(out, pc)
		}
	}
	return out
}

func (w *run) atQuiescence(final bool) {
	e := w.e
	w.nquiesce++
	e.Logf("quiescent point %d", w.nquiesce)
	if w.sc.has("stacks") {
		e.LogStacks("at quiescent point")
	}
	// GOAWAY: the first quiescent point after delivery
	for _, idx := range w.viewIdx() {
		v := w.views[idx]
		for i := range v.goaways {
			if !v.goaways[i].quiesced {
				v.goaways[i].quiesced = true
			}
		}
	}
	if w.sc.has("goaway") {
		w.checkGoAwayQuiescent()
	}
	if w.sc.has("deadline") {
		w.checkDeadlines()
	}
	if w.sc.has("recvflow") {
		w.c04Quiescent()
	}
	if w.sc.has("live") {
		w.checkLiveness()
	}
	if w.sc.has("quota") {
		w.checkStreamQuota()
	}
	for _, h := range w.hooks {
		h()
	}
}

func (w *run) viewIdx() []int {
	var ks []int
	for k := range w.views {
		ks = append(ks, k)
	}
	sort.Ints(ks)
	return ks
}

// checkGoAwayQuiescent: at a quiescent point after GOAWAY(N) was delivered,
// an application call must not be blocked on a stream above N any more: the
// client has failed that attempt as unprocessed (and retried it or returned).
func (w *run) checkGoAwayQuiescent() {
	e := w.e
	for _, id := range w.ids {
		st := w.rpcs[id]
		if st.clientDone || len(st.streams) == 0 || st.inCall == "" || st.inCall == "NewStream" {
			continue
		}
		ref := st.streams[len(st.streams)-1]
		v := w.views[ref.conn]
		pc := w.peer(ref.conn)
		if pc == nil || pc.dead || v == nil {
			continue
		}
		var lim *goAwayRec
		for i := range v.goaways {
			if g := &v.goaways[i]; !g.connErr() && (lim == nil || g.last < lim.last) {
				lim = g
			}
		}
		if lim == nil || ref.id <= lim.last {
			continue
		}
		// the retry may legitimately be waiting for a stream slot on the new connection
		waitingForSlot := false
		for _, pc2 := range w.liveConns() {
			if v2 := w.views[pc2.idx]; pc2.idx != ref.conn && v2.mcs >= 0 {
				open := 0
				for _, x := range v2.streams {
					if x.openForClient() {
						open++
					}
				}
				if int64(open) >= v2.mcs || len(v2.mcsPending) > 0 {
					waitingForSlot = true
				}
			}
		}
		if waitingForSlot {
			e.Probe("retry_waits_for_stream_slot")
			continue
		}
		e.Violate("stream_above_goaway_id_still_open", "rpc %d is blocked in %s on conn %d stream %d at a quiescent point after GOAWAY(last=%d) was delivered: the attempt was neither failed as unprocessed nor retried", id, st.inCall, ref.conn, ref.id, lim.last)
	}
}

// checkLiveness: C03 at a quiescent point. For every open stream: bytes the
// application has queued (Send returned nil) minus bytes on the wire > 0 while
// the stream window and the connection window (ledger: grants from delivery)
// are positive is a violation.
func (w *run) checkLiveness() {
	e := w.e
	for _, id := range w.ids {
		st := w.rpcs[id]
		if st.clientDone || len(st.streams) == 0 {
			continue
		}
		ref := st.streams[len(st.streams)-1]
		v := w.views[ref.conn]
		pc := w.peer(ref.conn)
		if pc == nil || pc.dead || v == nil {
			continue
		}
		s := v.streams[ref.id]
		if s == nil || s.cEnded || s.cRst || s.pRstD || s.pEndedD {
			continue
		}
		if min, ok := v.goAwayMin(); ok && s.id > min {
			continue // closed locally as unprocessed
		}
		var queued int64
		for _, n := range st.cSubmitted {
			queued += int64(n) + 5
		}
		sa, ca, wire, ok := w.led.StreamAvail(ref.conn, 'c', ref.id)
		if !ok {
			continue
		}
		if queued > wire {
			e.Probe("quiescent_with_pending_data")
			if sa <= 0 {
				e.Probe("pending_waits_for_stream_window")
			}
			if ca <= 0 {
				e.Probe("pending_waits_for_conn_window")
			}
		}
		if queued-wire > 0 && sa > 0 && ca > 0 {
			e.Violate("data_with_credit_not_written", "rpc %d (conn %d stream %d): at quiescence the application has queued %d bytes, %d are on the wire, stream window %d and connection window %d are positive, yet nothing is being written", id, ref.conn, ref.id, queued, wire, sa, ca)
		}
		// C17 (write-quota clause seen from outside): a SendMsg still blocked
		// although every byte of the earlier messages is on the wire
		if st.inCall == "SendMsg" && queued == wire && len(st.cStarted) == len(st.cSubmitted)+1 && len(st.cSubmitted) > 0 {
			e.Violate("send_blocked_with_nothing_pending", "rpc %d (conn %d stream %d): SendMsg is blocked at quiescence although all %d bytes of the earlier messages are on the wire", id, ref.conn, ref.id, wire)
		}
	}
}

// checkStreamQuota: C13/C17 liveness at a quiescent point: no RPC waits for
// stream quota while fewer streams are open than the acknowledged limit.
func (w *run) checkStreamQuota() {
	e := w.e
	live := w.liveConns()
	if len(live) != 1 || w.cc.GetState() != connectivity.Ready {
		return
	}
	pc := live[0]
	v := w.views[pc.idx]
	if len(v.goaways) > 0 || v.cliGoAway || len(v.mcsPending) > 0 || v.prefaceAt.IsZero() {
		return
	}
	waiting := 0
	var first uint32
	for _, id := range w.ids {
		st := w.rpcs[id]
		if st.inCall == "NewStream" && !st.clientDone {
			if waiting == 0 {
				first = id
			}
			waiting++
		}
	}
	open := 0
	for _, s := range v.streams {
		if s.openForClient() {
			open++
		}
	}
	if waiting > 0 {
		e.Probe("quiescent_with_waiting_newstream")
	}
	if waiting > 0 && (v.mcs < 0 || int64(open) < v.mcs) {
		e.Violate("waiting_for_stream_quota_below_limit", "at quiescence %d RPC(s) (first: rpc %d) are blocked in NewStream on a READY connection (conn %d) that has %d open streams and an acknowledged MAX_CONCURRENT_STREAMS of %d", waiting, first, pc.idx, open, v.mcs)
	}
}

// afterClose runs after ClientConn.Close: every connection must be closed by
// the client.
func (w *run) afterClose() {
	// with network faults a writer may stay blocked on a blackholed or stalled
	// connection for as long as the (simulated) network does not fail the write
	if !w.sc.has("closed_at_end") || w.faulty {
		return
	}
	for _, idx := range w.viewIdx() {
		if sp := w.spies[idx]; sp != nil && !sp.closed {
			w.e.Violate("connection_open_after_close", "conn %d has not been closed by the client after ClientConn.Close", idx)
		}
	}
}

// checkAtEnd: oracles over the recorded history at the final quiescent point.
func (w *run) checkAtEnd() {
	e := w.e
	for _, id := range w.ids {
		st := w.rpcs[id]
		if !st.clientDone {
			e.Violate("rpc_not_terminated", "rpc %d has no final status at the end of the run (blocked in %q)", id, st.inCall)
			continue
		}
	}
	if w.sc.has("goaway") {
		w.checkGoAway()
	}
	if w.sc.has("terminal") {
		// how the client reacted to the hostile peer (probes only)
		for _, id := range w.ids {
			if st := w.rpcs[id]; st.clientDone {
				e.Probe("status_" + st.clientStatus.Code().String())
			}
		}
		for _, pc := range w.peers {
			if pc == nil {
				continue
			}
			if pc.cliGoAway && pc.cliGoAwayCode != http2.ErrCodeNo {
				e.Probe("client_goaway_" + pc.cliGoAwayCode.String())
			}
			for _, c := range pc.cliRst {
				e.Probe("client_rst_" + c.String())
			}
		}
		for _, idx := range w.viewIdx() {
			if sp := w.spies[idx]; sp != nil && sp.closed {
				e.Probe("client_closed_connection")
			}
		}
	}
	for _, f := range endHooks {
		f(w)
	}
}

var endHooks []func(w *run)

func ownEnd(st *rpcState) bool {
	c := st.clientStatus.Code()
	if st.cancelled && c == codes.Canceled {
		return true
	}
	if c == codes.DeadlineExceeded && !st.finishedAt.Before(st.deadline) {
		return true
	}
	return false
}

// checkGoAway: C14 (client half) over the history.
func (w *run) checkGoAway() {
	e := w.e
	// connection-level: a second GOAWAY with a larger id is a connection error
	for _, idx := range w.viewIdx() {
		v := w.views[idx]
		for _, g := range v.goaways {
			if g.illegal {
				e.Probe("second_goaway_larger_id")
				if pc := w.peer(idx); pc != nil && !pc.dead && g.quiesced {
					e.Violate("goaway_connection_error_not_enforced", "conn %d: a second GOAWAY with a larger last-stream-id (%d) was delivered but the client has not closed the connection", idx, g.last)
					break
				}
			}
		}
	}
	for _, id := range w.ids {
		st := w.rpcs[id]
		if !st.clientDone {
			continue
		}
		for k, ref := range st.streams {
			v := w.views[ref.conn]
			s := v.streams[ref.id]
			if len(v.goaways) == 0 {
				continue
			}
			lastAttempt := k == len(st.streams)-1
			// the first GOAWAY decides which streams are unprocessed; later ones can only lower the id
			min, _ := v.goAwayMin()
			anyIllegal := false
			onlyErr := true
			for _, g := range v.goaways {
				if g.connErr() {
					anyIllegal = true
				} else {
					onlyErr = false
				}
			}
			if onlyErr {
				continue // nothing but GOAWAYs that are connection errors: no per-stream rule
			}
			if s.id > min {
				if s.hdrSeq < v.goaways[0].seq {
					e.Probe("stream_above_goaway_id")
				} else {
					e.Probe("late_stream_above_goaway_id")
				}
				if !lastAttempt {
					e.Probe("goaway_transparent_retry")
					continue
				}
				// eligible for a transparent retry: first attempt, nothing received
				// on the stream, little data buffered, the RPC did not end by itself
				if ps := w.peerStreamOf(st, ref); k == 0 && !ownEnd(st) && (ps == nil || !ps.hdrSent && !ps.rstSent) && !w.faulty && !w.abrupt && !anyIllegal {
					sent := 0
					for _, n := range st.cStarted {
						sent += n
					}
					if sent < 100000 && st.clientStatus.Code() == codes.Unavailable {
						e.Violate("unprocessed_stream_not_retried", "rpc %d: its only attempt was on stream %d of conn %d, above the GOAWAY id %d, the peer sent nothing on it, yet the RPC failed with UNAVAILABLE instead of being retried transparently", id, s.id, ref.conn, min)
						continue
					}
				}
				// the attempt had to end as unprocessed: UNAVAILABLE or the RPC's own end
				if c := st.clientStatus.Code(); c != codes.Unavailable && !ownEnd(st) {
					// the peer may have answered this stream before it sent the GOAWAY
					if ps := w.peerStreamOf(st, ref); ps != nil {
						if code, ok := st.peerReturned[ps.att]; ok && code >= 0 && codes.Code(code) == c {
							continue
						}
					}
					e.Violate("unprocessed_stream_not_unavailable", "rpc %d: its stream %d on conn %d is above the GOAWAY id %d (unprocessed) and was not retried, but the RPC ended with %v instead of UNAVAILABLE", id, s.id, ref.conn, min, c)
				}
				continue
			}
			// id <= N: not failed by the GOAWAY
			if !lastAttempt {
				if ps := w.peerStreamOf(st, ref); !anyIllegal && !w.faulty && !w.abrupt && (ps == nil || !ps.rstSent) {
					e.Violate("accepted_stream_failed_by_goaway", "rpc %d: stream %d on conn %d is at or below the GOAWAY id %d but the client abandoned it and started another attempt", id, s.id, ref.conn, min)
				}
				continue
			}
			e.Probe("stream_at_or_below_goaway_id")
			if anyIllegal || w.faulty || w.abrupt || ownEnd(st) {
				continue
			}
			ps := w.peerStreamOf(st, ref)
			if ps == nil {
				continue
			}
			code, ok := st.peerReturned[ps.att]
			got := st.clientStatus.Code()
			if !ok {
				// the peer never answered: only the RPC's own deadline/cancel may end it
				e.Violate("accepted_stream_failed_by_goaway", "rpc %d: stream %d on conn %d is at or below the GOAWAY id %d and the peer never finished it, but the RPC ended with %v", id, s.id, ref.conn, min, got)
				continue
			}
			if code >= 0 && codes.Code(code) != got {
				e.Violate("accepted_stream_failed_by_goaway", "rpc %d: stream %d on conn %d is at or below the GOAWAY id %d; the peer finished it with status %v but the RPC ended with %v", id, s.id, ref.conn, min, codes.Code(code), got)
			}
		}
	}
}
