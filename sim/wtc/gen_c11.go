package wtc

import (
	"bytes"
	"encoding/hex"

	"golang.org/x/net/http2"
	"golang.org/x/net/http2/hpack"

	"google.golang.org/grpc/internal/zzverif/core"
)

// ---- C11: hostile server ----

func rndBytes(r *core.Rand, n int) []byte {
	b := make([]byte, n)
	for i := range b {
		b[i] = byte(r.Uint64())
	}
	return b
}

// hostileFrame draws one frame from the grammar: any type, random flags,
// legal and illegal stream ids, payloads of wrong sizes.
func hostileFrame(r *core.Rand) (ftype, flags int, sid int64, payload []byte, n int) {
	// stream id: this stream (-1), stream 0, an even id, an idle odd id, this+2 (-3)
	sid = core.Pick(r, int64(-1), -1, -1, 0, 2, 4, 1001, -3, 1<<31-1)
	switch r.Intn(14) {
	case 0: // DATA, possibly padded with a bad pad length, possibly on a bad stream
		ftype = 0
		flags = core.Pick(r, 0, 0, 1, 8, 9)
		payload = rndBytes(r, r.Range(0, 40))
		if flags&8 != 0 && len(payload) > 0 && r.Chance(2, 3) {
			// pad length around the payload size
			payload[0] = byte(max(0, len(payload)-1+core.Pick(r, -1, 0, 1, 2)))
		}
	case 1: // DATA larger than the maximum frame size the client allows
		ftype, n = 0, core.Pick(r, 16385, 20000, 70000)
	case 2: // HEADERS with a garbage header block
		ftype = 1
		flags = core.Pick(r, 4, 5, 0, 0x24, 0x0c, 0x2d)
		payload = rndBytes(r, r.Range(0, 30))
	case 3: // HEADERS without END_HEADERS, then whatever comes next is not a CONTINUATION
		ftype, flags = 1, core.Pick(r, 0, 1)
		payload = []byte{0x88}
	case 4: // CONTINUATION out of place
		ftype, flags = 9, core.Pick(r, 0, 4)
		payload = rndBytes(r, r.Range(0, 10))
	case 5: // RST_STREAM with arbitrary code / wrong length / on stream 0
		ftype = 3
		payload = rndBytes(r, core.Pick(r, 4, 4, 4, 0, 3, 5))
		if len(payload) == 4 && r.Chance(1, 2) {
			payload = []byte{0, 0, 0, byte(r.Intn(16))}
		}
	case 6: // SETTINGS: bad length, ack with payload, illegal values, wrong stream
		ftype = 4
		flags = core.Pick(r, 0, 0, 1)
		switch r.Intn(5) {
		case 0:
			payload = rndBytes(r, core.Pick(r, 1, 5, 7, 13))
		case 1:
			payload = []byte{0, 2, 0, 0, 0, 2} // ENABLE_PUSH = 2
		case 2:
			payload = []byte{0, 4, 0x80, 0, 0, 0} // INITIAL_WINDOW_SIZE = 2^31
		case 3:
			payload = []byte{0, 5, 0, 0, 0, byte(r.Intn(3))} // MAX_FRAME_SIZE tiny
		default:
			payload = append([]byte{0, byte(r.Range(0, 9))}, rndBytes(r, 4)...)
		}
		if r.Chance(2, 3) {
			sid = 0
		}
	case 7: // PUSH_PROMISE
		ftype, flags = 5, core.Pick(r, 4, 0)
		payload = append([]byte{0, 0, 0, byte(r.Range(0, 9))}, rndBytes(r, r.Range(0, 8))...)
	case 8: // PING with wrong length or on a stream
		ftype, flags = 6, core.Pick(r, 0, 1)
		payload = rndBytes(r, core.Pick(r, 8, 8, 0, 7, 9))
		if r.Chance(2, 3) {
			sid = 0
		}
	case 9: // GOAWAY
		ftype = 7
		payload = rndBytes(r, core.Pick(r, 8, 8, 0, 7, 20))
		if len(payload) >= 8 && r.Chance(1, 2) {
			payload[0], payload[1], payload[2] = 0, 0, 0
		}
		if r.Chance(2, 3) {
			sid = 0
		}
	case 10: // WINDOW_UPDATE: zero increment, overflow, wrong length
		ftype = 8
		payload = core.Pick(r, []byte{0, 0, 0, 0}, []byte{0x7f, 0xff, 0xff, 0xff}, []byte{0xff, 0xff, 0xff, 0xff}, []byte{0, 0, 1}, []byte{0, 0, 0, 1, 0})
		if r.Chance(1, 3) {
			sid = 0
		}
	case 11: // PRIORITY
		ftype = 2
		payload = rndBytes(r, core.Pick(r, 5, 5, 4, 6))
	case 12: // unknown frame type
		ftype, flags = r.Range(10, 255), r.Intn(256)
		payload = rndBytes(r, r.Range(0, 50))
	default: // anything
		ftype, flags = r.Intn(12), r.Intn(256)
		payload = rndBytes(r, r.Range(0, 64))
	}
	return
}

func hostileSOp(r *core.Rand) SOp {
	ft, fl, sid, p, n := hostileFrame(r)
	return SOp{Op: "frame", FType: ft, FFlags: fl, FSid: sid, Hex: hex.EncodeToString(p), N: n}
}

// weirdHeaders returns a header list that is wrong in one of the ways the
// gRPC-over-HTTP/2 mapping forbids.
func weirdHeaders(r *core.Rand, trailers bool) []KV {
	std := []KV{{K: ":status", V: "200"}, {K: "content-type", V: "application/grpc"}}
	st := []KV{{K: "grpc-status", V: "0"}}
	var h []KV
	switch r.Intn(16) {
	case 0: // no :status
		h = []KV{std[1]}
	case 1:
		h = []KV{{K: ":status", V: core.Pick(r, "404", "500", "302", "100", "101", "abc", "", "99999999999999999999")}, std[1]}
	case 2:
		h = []KV{std[0], {K: "content-type", V: core.Pick(r, "text/html", "application/grpcweb", "", "application/grpc+", "APPLICATION/GRPC")}}
	case 3: // no content-type
		h = []KV{std[0]}
	case 4: // bad grpc-status
		h = append(std, KV{K: "grpc-status", V: core.Pick(r, "abc", "-1", "99", "4294967296", "", " 0", "0x1")})
		return h
	case 5: // undecodable -bin
		h = append(std, KV{K: "x-bin", V: core.Pick(r, "!!!", "=", "a", "AAAAA")})
	case 6: // bad grpc-status-details-bin
		h = append(std, KV{K: "grpc-status-details-bin", V: core.Pick(r, "!!", "AAAA", "CAESBWhlbGxv")}, KV{K: "grpc-status", V: "3"})
		return h
	case 7: // pseudo header after a regular one / unknown pseudo header / duplicate
		h = core.Pick(r, []KV{std[1], std[0]}, []KV{std[0], std[0], std[1]}, []KV{{K: ":path", V: "/x"}, std[0], std[1]}, []KV{{K: ":foo", V: "bar"}, std[0], std[1]})
	case 8: // upper-case or otherwise illegal field name / value
		h = append(std, KV{K: core.Pick(r, "X-Upper", "bad name", "", "nul\x00"), V: "v"}, KV{K: "x-val", VHex: core.Pick(r, "0a", "00", "7f")})
	case 9: // huge header list
		h = append([]KV{}, std...)
		for i := 0; i < r.Range(50, 400); i++ {
			h = append(h, KV{K: "x-big-" + string(rune('a'+i%26)), V: string(bytes.Repeat([]byte{'v'}, r.Range(100, 4000)))})
		}
	case 10: // grpc-message with bad percent-encoding, grpc-encoding nonsense
		h = append(std, KV{K: "grpc-message", V: core.Pick(r, "%", "%zz", "%e2%28%a1", "a%0")}, KV{K: "grpc-encoding", V: core.Pick(r, "nosuch", "", "gzip,deflate")})
	case 11: // connection-specific headers are malformed in HTTP/2
		h = append(std, KV{K: core.Pick(r, "connection", "transfer-encoding", "te", "upgrade", "keep-alive"), V: core.Pick(r, "close", "chunked", "trailers", "x")})
	case 12: // retry pushback / timeouts nonsense
		h = append(std, KV{K: "grpc-retry-pushback-ms", V: core.Pick(r, "-1", "abc", "99999999999")}, KV{K: "grpc-timeout", V: "1Z"})
	default:
		h = append([]KV{}, std...)
	}
	if trailers && r.Chance(2, 3) {
		h = append(h, st...)
	}
	return h
}

// mutated raw bytes: a plausible frame sequence with random byte damage.
func rawGarbage(r *core.Rand) []byte {
	var buf bytes.Buffer
	fr := http2.NewFramer(&buf, nil)
	fr.AllowIllegalWrites = true
	var hb bytes.Buffer
	enc := hpack.NewEncoder(&hb)
	enc.WriteField(hpack.HeaderField{Name: ":status", Value: "200"})
	enc.WriteField(hpack.HeaderField{Name: "content-type", Value: "application/grpc"})
	for i := 0; i < r.Range(1, 4); i++ {
		switch r.Intn(5) {
		case 0:
			fr.WriteHeaders(http2.HeadersFrameParam{StreamID: uint32(r.Range(0, 5)), BlockFragment: hb.Bytes(), EndHeaders: r.Chance(3, 4), EndStream: r.Chance(1, 3)})
		case 1:
			fr.WriteData(uint32(r.Range(0, 5)), r.Chance(1, 3), rndBytes(r, r.Range(0, 30)))
		case 2:
			fr.WriteSettings(http2.Setting{ID: http2.SettingID(r.Range(0, 8)), Val: uint32(r.Uint64())})
		case 3:
			fr.WriteWindowUpdate(uint32(r.Range(0, 3)), uint32(r.Uint64())&0x7fffffff)
		default:
			fr.WriteRSTStream(uint32(r.Range(0, 5)), http2.ErrCode(r.Intn(20)))
		}
	}
	b := buf.Bytes()
	switch r.Intn(5) {
	case 0: // flip bytes
		for i := 0; i < r.Range(1, 4) && len(b) > 0; i++ {
			b[r.Intn(len(b))] ^= byte(1 << r.Intn(8))
		}
	case 1: // truncate
		b = b[:r.Intn(len(b)+1)]
	case 2: // a frame header that announces far more than follows
		if len(b) >= 3 {
			b[0], b[1], b[2] = byte(r.Intn(256)), byte(r.Intn(256)), byte(r.Intn(256))
		}
	case 3: // pure noise
		b = rndBytes(r, r.Range(1, 60))
	default: // looks like HTTP/1.1
		b = []byte("HTTP/1.1 400 Bad Request\r\nContent-Length: 0\r\n\r\n")
	}
	return b
}

func genC11(seed uint64, tier string) *Scenario {
	r, s := genBase(seed, tier, true)
	s.Oracles = []string{"deadline", "terminal", "closed_at_end"}
	if s.Client.WriteBuf == 1 {
		s.Client.WriteBuf = 0
	}
	p := &s.Peer
	p.IllegalWrites = true
	p.MCS = int64(core.Pick(r, -1, -1, -1, 0, 1, 3))
	p.IWS = int64(core.Pick(r, -1, -1, 0, 10, 1<<20))
	if r.Chance(1, 10) {
		p.NoPreface = true
	}
	if r.Chance(1, 8) {
		p.NoAck = true
	}
	if r.Chance(1, 10) {
		p.SettingsDelayNs = int64(core.Pick(r, 1000000, 5000000000, 25000000000))
	}
	p.PingAck = core.Pick(r, "", "", "never", "delay")
	p.PingAckDelayNs = int64(r.LogUniform(1000, 1000000000))
	if r.Chance(1, 3) {
		s.Client.KATimeNs = int64(core.Pick(r, 10000000000, 60000000000))
		s.Client.KATimeoutNs = int64(core.Pick(r, 1000000000, 20000000000))
		s.Client.KAPermit = r.Chance(1, 2)
	}
	s.Client.DisableRetry = r.Chance(1, 3)
	n := r.Range(1, 8)
	horizon := int64(core.Pick(r, 1000000, 50000000, 2000000000))
	for i := 0; i < n; i++ {
		rpc := RPC{ID: uint32(i + 1), StartNs: int64(r.Intn(int(horizon)))}
		if r.Chance(1, 2) {
			rpc.StartNs = 0
		}
		rpc.DeadlineNs = int64(r.LogUniform(1000000, 600000000000)) // 1 ms .. 10 min
		rpc.WaitReady = r.Chance(1, 4)
		for k := r.Intn(3); k > 0; k-- {
			rpc.Client = append(rpc.Client, Op{Op: "send", N: r.Range(0, 3000)})
		}
		if r.Chance(1, 2) {
			rpc.Client = append(rpc.Client, Op{Op: "close_send"})
		}
		if r.Chance(1, 8) {
			rpc.Client = append(rpc.Client, Op{Op: "sleep", Ns: int64(r.LogUniform(1000, 100000000))}, Op{Op: "cancel"})
		}
		rpc.Client = append(rpc.Client, Op{Op: "recv_all"})
		var srv []SOp
		for k := r.Range(0, 5); k > 0; k-- {
			switch r.Intn(9) {
			case 0:
				srv = append(srv, SOp{Op: "headers"})
			case 1:
				srv = append(srv, SOp{Op: "headers", NoStd: true, MD: weirdHeaders(r, false)})
			case 2:
				srv = append(srv, SOp{Op: "send", N: r.Range(0, 3000), Flag: core.Pick(r, 0, 0, 0, 1, 2, 255), Lie: core.Pick(r, 0, 0, 0, 1, -1, 1000000, 1<<31), Split: []int{core.Pick(r, 1, 3, 100, 16384)}, Pad: core.Pick(r, 0, 0, 5, 255), NoStd: r.Chance(1, 4)})
			case 3, 4, 5:
				srv = append(srv, hostileSOp(r))
			case 6:
				srv = append(srv, SOp{Op: "raw", Hex: hex.EncodeToString(rawGarbage(r))})
			case 7:
				srv = append(srv, SOp{Op: "sleep", Ns: int64(r.LogUniform(1000, 3000000000))})
			default:
				srv = append(srv, SOp{Op: core.Pick(r, "recv", "recv_all", "wait_bytes"), N: r.Range(1, 1000)})
			}
		}
		switch r.Intn(8) {
		case 0, 1:
			srv = append(srv, SOp{Op: "trailers", Code: r.Range(0, 17)})
		case 2:
			srv = append(srv, SOp{Op: "trailers", NoStd: true, MD: weirdHeaders(r, true)})
		case 3:
			srv = append(srv, SOp{Op: "rst", Code: r.Intn(20)})
		case 4:
			srv = append(srv, SOp{Op: "end_data"})
		case 5:
			srv = append(srv, SOp{Op: "trailers", Code: 0}, hostileSOp(r), SOp{Op: "trailers", Code: 3}) // frames after END_STREAM
		default: // leaves the stream hanging
		}
		rpc.Server = [][]SOp{srv}
		s.RPCs = append(s.RPCs, rpc)
	}
	na := r.Range(0, 5)
	for i := 0; i < na; i++ {
		at := int64(r.LogUniform(1000, int(horizon)+1000000))
		var a Action
		switch r.Intn(10) {
		case 0, 1, 2:
			ft, fl, sid, pl, nn := hostileFrame(r)
			a = act(at, "frame")
			if sid < 0 {
				sid = int64(core.Pick(r, 1, 3, 5, 7))
			}
			a.FType, a.FFlag, a.Sid, a.Hex, a.N = ft, fl, uint32(sid), hex.EncodeToString(pl), nn
			a.Count = core.Pick(r, 1, 1, 1, 3, 100)
		case 3:
			a = act(at, "raw")
			a.Hex = hex.EncodeToString(rawGarbage(r))
		case 4:
			a = act(at, "settings")
			a.MCS = int64(core.Pick(r, -1, 0, 1, 100))
			a.IWS = int64(core.Pick(r, -1, 0, 1<<31-1, 65535))
			a.MFS = int64(core.Pick(r, -1, 16384, 1<<24-1))
			a.HTS = int64(core.Pick(r, -1, 0, 1<<20))
		case 5:
			a = act(at, "goaway")
			a.Last = int64(core.Pick(r, -1, -2, -3, 0, 1, 2, 3, 1<<31-1))
			a.Code = r.Intn(16)
			a.Debug = core.Pick(r, "", "too_many_pings", "x")
		case 6:
			a = act(at, "ping")
			a.Count = core.Pick(r, 1, 10, 200) // flood: control-frame throttling
			a.Tag = i
		case 7:
			a = act(at, core.Pick(r, "close", "kill"))
		case 8:
			a = act(at, core.Pick(r, "read_stall", "write_stall"))
			a.DurNs = int64(r.LogUniform(1000, 5000000000))
		default:
			a = act(at, "wupd")
			a.Inc = int64(core.Pick(r, 1<<31-1, 1<<30, 1))
			a.RPC = uint32(core.Pick(r, 0, 1, 2))
			a.Count = core.Pick(r, 1, 2, 3)
		}
		s.Actions = append(s.Actions, a)
	}
	if r.Chance(1, 2) {
		genFaults(r, s, "reset", "cut_after", "half_close", "blackhole", "stall")
		for i := range s.Faults {
			s.Faults[i].Conn = core.Pick(r, 0, 0, 1)
			// A connection whose client->server half alone is closed keeps the
			// transport READY while every NewStream on it fails at once: grpc-go
			// then retries transparently in a tight loop until the reader fails,
			// which costs minutes of CPU per run here (see the report). Close
			// both halves instead.
			if s.Faults[i].Kind == "half_close" && s.Faults[i].Dir == "c2s" {
				s.Faults[i].Dir = "both"
			}
		}
		if r.Chance(1, 6) {
			s.Faults = append(s.Faults, simnetFault("dial_fail", r.Intn(3)))
		}
	}
	// "Aligned" RPCs (own random stream, so the other scenarios of a seed stay
	// what they were): the response headers arrive at the very instant the RPC's
	// deadline passes or the application cancels, so the reader goroutine is
	// inside the stream's header processing while the stream is being closed
	// from the application side. Needs an ideal network: with latency the two
	// instants are independent.
	r2 := core.NewRand(core.Mix(seed, 97))
	if r2.Chance(1, 3) && len(s.Faults) == 0 {
		aligned := false
		for i := range s.RPCs {
			if !r2.Chance(1, 2) {
				continue
			}
			rpc := &s.RPCs[i]
			d := int64(r2.LogUniform(1000, 50000000))
			var md []KV
			for k := r2.Intn(40); k > 0; k-- {
				md = append(md, KV{K: "x-pad", V: "v"})
			}
			hdr := SOp{Op: "headers", MD: md}
			if r2.Chance(1, 2) {
				rpc.DeadlineNs = d
				rpc.Client = []Op{{Op: "recv_all"}}
			} else {
				rpc.DeadlineNs = d + int64(r2.LogUniform(1000000, 1000000000))
				rpc.Client = []Op{{Op: "sleep", Ns: d}, {Op: "cancel"}, {Op: "recv_all"}}
			}
			rpc.WaitReady = true
			rpc.Server = [][]SOp{{{Op: "sleep", Ns: d}, hdr}}
			aligned = true
		}
		if aligned {
			s.Net.LatencyNs, s.Net.StallPct, s.Net.DialDelayNs = 0, 0, 0
			s.Peer.SettingsDelayNs = 0
			s.Peer.NoPreface = false
		}
	}
	sortActions(s)
	return s
}

func init() { core.Register("C11", genC11, Run) }
