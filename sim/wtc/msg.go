package wtc

import (
	"bytes"
	"compress/gzip"
	"encoding/binary"
	"errors"
	"io"

	"google.golang.org/grpc"
	"google.golang.org/grpc/encoding"
	_ "google.golang.org/grpc/encoding/gzip"

	"google.golang.org/grpc/internal/zzverif/tap"
)

// buildMsg frames one gRPC message of the peer: flag byte, declared length
// (true length + lie), payload (pattern bytes, optionally compressed).
func (w *run) buildMsg(ps *peerStream, op SOp) ([]byte, sentMsg) {
	key := ps.rpc ^ uint32(ps.att)<<24
	idx := ps.sentMsgs
	var wire []byte
	switch op.Enc {
	case "gzip":
		plain := make([]byte, op.N)
		tap.FillPat(plain, key, 's', idx)
		var zb bytes.Buffer
		zw := gzip.NewWriter(&zb)
		zw.Write(plain)
		zw.Close()
		wire = zb.Bytes()
	case "simcnt":
		// the counting compressor's wire format: decompressed length, pattern key, message index
		wire = make([]byte, 12)
		binary.BigEndian.PutUint32(wire[0:], uint32(op.N))
		binary.BigEndian.PutUint32(wire[4:], key)
		binary.BigEndian.PutUint32(wire[8:], uint32(idx))
	default:
		wire = make([]byte, op.N)
		tap.FillPat(wire, key, 's', idx)
	}
	decl := len(wire) + op.Lie
	if decl < 0 {
		decl = 0
	}
	out := make([]byte, 5+len(wire))
	out[0] = byte(op.Flag)
	binary.BigEndian.PutUint32(out[1:], uint32(decl))
	copy(out[5:], wire)
	return out, sentMsg{n: op.N, wire: len(wire), flag: op.Flag, lie: op.Lie, enc: op.Enc}
}

// ---- counting compressor ----

// cntCompressor ("simcnt") decompresses a 12-byte description into N pattern
// bytes produced lazily; the reader counts the bytes it hands out, so that the
// "never materialises more than limit+1 bytes" clause of C06 is observable.
type cntCompressor struct{}

func (cntCompressor) Name() string { return "simcnt" }

func (cntCompressor) Compress(w io.Writer) (io.WriteCloser, error) {
	return nil, errors.New("simcnt: compress not supported")
}

type cntReader struct {
	n, off int
	key    uint32
	idx    int
}

func (r *cntReader) Read(p []byte) (int, error) {
	if r.off >= r.n {
		return 0, io.EOF
	}
	k := len(p)
	if k > r.n-r.off {
		k = r.n - r.off
	}
	for i := 0; i < k; i++ {
		p[i] = tap.PatByte(r.key, 's', r.idx, r.off+i)
	}
	r.off += k
	if curRun != nil {
		curRun.cntPulled[cntKey{r.key, r.idx}] += int64(k)
	}
	return k, nil
}

type cntKey struct {
	key uint32
	idx int
}

func (cntCompressor) Decompress(r io.Reader) (io.Reader, error) {
	var h [12]byte
	if _, err := io.ReadFull(r, h[:]); err != nil {
		return nil, err
	}
	return &cntReader{n: int(binary.BigEndian.Uint32(h[0:])), key: binary.BigEndian.Uint32(h[4:]), idx: int(binary.BigEndian.Uint32(h[8:]))}, nil
}

func init() {
	encoding.RegisterCompressor(cntCompressor{})
	// Process-global lazy initialisation (compress/flate's fixed Huffman tables,
	// gzip pools' New functions) must not fall into whichever run happens to
	// use gzip first: do one round trip through every gzip path now.
	var zb bytes.Buffer
	zw := gzip.NewWriter(&zb)
	zw.Write([]byte("warm-up warm-up warm-up"))
	zw.Close()
	if zr, err := gzip.NewReader(bytes.NewReader(zb.Bytes())); err == nil {
		io.ReadAll(zr)
	}
	if c := encoding.GetCompressor("gzip"); c != nil {
		var cb bytes.Buffer
		if wc, err := c.Compress(&cb); err == nil {
			wc.Write([]byte("warm-up"))
			wc.Close()
		}
		if r, err := c.Decompress(bytes.NewReader(cb.Bytes())); err == nil {
			io.ReadAll(r)
		}
	}
	grpc.NewGZIPDecompressor().Do(bytes.NewReader(zb.Bytes()))
}
