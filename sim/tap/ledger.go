package tap

import (
	"fmt"
	"strconv"

	"golang.org/x/net/http2"
	"google.golang.org/grpc/internal/zzverif/core"
)

// StreamKey identifies one direction of one attempt of a logical RPC.
type StreamKey struct {
	RPC uint32
	Dir byte // 'c' client->server, 's' server->client
	Att int  // server side: the handler's invocation number for this RPC (from x-sim-att); client side: 0
}

// App is what a world tells the ledger about application-level sends.
type App interface {
	// Submitted returns the sizes of the messages whose Send has returned nil
	// so far on the given stream, in order.
	Submitted(k StreamKey) []int
	// Started returns the sizes of messages whose Send has been called
	// (returned or not), in order.
	Started(k StreamKey) []int
}

const (
	defaultWindow    = 65535
	defaultFrameSize = 16384
	maxDataFrame     = 16384
)

// sendSide is the ledger of one endpoint X of one connection as a sender.
type sendSide struct {
	connSent, connUpd int64
	iws               int64   // acked SETTINGS_INITIAL_WINDOW_SIZE of the peer
	iwsPending        []int64 // delivered to X, not yet acked by X (-1: setting absent)
	mfs               int64   // acked SETTINGS_MAX_FRAME_SIZE of the peer
	mfsPending        []int64
	mcs               int64 // acked MAX_CONCURRENT_STREAMS of the peer (-1 unlimited)
	mcsPending        []int64
	streams           map[uint32]*sendStream
	lastNewID         uint32
	goAwayDelivered   bool
	goAwayLast        uint32
	MinConnAvail      int64
}

type sendStream struct {
	id        uint32
	rpc       uint32
	haveRPC   bool
	att       int
	sent, upd int64
	hdrs      int // HEADERS frames sent by X on this stream
	ended     bool
	rst       bool
	peerEnded bool // peer's END_STREAM delivered to X
	peerRst   bool // peer's RST_STREAM delivered to X
	// gRPC message re-assembly of X's DATA payload
	pfx     [5]byte
	pfxN    int
	msgIdx  int
	msgLen  int
	msgOff  int
	inMsg   bool
	comp    bool
	dead    bool // byte-level checking stopped after a reported mismatch
	minAvl  int64
	openedC bool // counted as open in the concurrent-streams ledger
}

type connLedger struct {
	side [2]*sendSide // 0: client as sender, 1: server as sender
}

// Ledger consumes frame events of all connections of a run and checks the
// sender-side invariants of C01, C02 and C13.
type Ledger struct {
	E     *core.Env
	App   App
	conns map[int]*connLedger
	// Toggles
	CheckBytes   bool // C02 payload attribution (needs App and pattern payloads)
	CheckWindows bool // C01
	CheckStreams bool // C02 END_STREAM / frame-after-close rules
	CheckMCS     bool // C13
	// Stats
	DataFrames, DataBytes int64
	MaxOpen               map[int]int
}

func NewLedger(e *core.Env, app App) *Ledger {
	return &Ledger{E: e, App: app, conns: map[int]*connLedger{}, CheckBytes: true, CheckWindows: true, CheckStreams: true, CheckMCS: true, MaxOpen: map[int]int{}}
}

func newSide() *sendSide {
	return &sendSide{iws: defaultWindow, mfs: defaultFrameSize, mcs: -1, streams: map[uint32]*sendStream{}, MinConnAvail: defaultWindow}
}

func (l *Ledger) conn(i int) *connLedger {
	c := l.conns[i]
	if c == nil {
		c = &connLedger{side: [2]*sendSide{newSide(), newSide()}}
		l.conns[i] = c
	}
	return c
}

func sideIdx(from byte) int {
	if from == 'c' {
		return 0
	}
	return 1
}

func (s *sendSide) stream(id uint32) *sendStream {
	st := s.streams[id]
	if st == nil {
		st = &sendStream{id: id, minAvl: 1 << 40}
		s.streams[id] = st
	}
	return st
}

func (s *sendSide) iwsEff() int64 {
	v := s.iws
	for _, p := range s.iwsPending {
		if p >= 0 && p > v {
			v = p
		}
	}
	return v
}

func (s *sendSide) mfsEff() int64 {
	v := s.mfs
	for _, p := range s.mfsPending {
		if p >= 0 && p > v {
			v = p
		}
	}
	return v
}

// Sink is the tap callback.
func (l *Ledger) Sink(f *Frame) {
	c := l.conn(f.Conn)
	if f.Phase == 'w' {
		l.wrote(c, c.side[sideIdx(f.From)], c.side[1-sideIdx(f.From)], f)
	} else {
		// delivered to the other side: it is a grant/notification for that side as a sender
		l.delivered(c, c.side[1-sideIdx(f.From)], f)
	}
}

func who(from byte) string {
	if from == 'c' {
		return "client"
	}
	return "server"
}

// wrote: sender X (ledger s) put frame f on the wire.
func (l *Ledger) wrote(c *connLedger, s, peer *sendSide, f *Frame) {
	e := l.E
	switch f.Type {
	case http2.FrameData:
		st := s.stream(f.StreamID)
		l.DataFrames++
		l.DataBytes += int64(f.Length)
		if l.CheckWindows {
			if f.Length > maxDataFrame {
				e.Violate("data_frame_too_large", "%s sent DATA of %d bytes (> 16384) on conn %d stream %d", who(f.From), f.Length, f.Conn, f.StreamID)
			}
			s.connSent += int64(f.Length)
			st.sent += int64(f.Length)
			ca := defaultWindow + s.connUpd - s.connSent
			sa := s.iwsEff() + st.upd - st.sent
			if ca < s.MinConnAvail {
				s.MinConnAvail = ca
			}
			if sa < st.minAvl {
				st.minAvl = sa
			}
			if ca == 0 {
				e.Probe("conn_window_exhausted")
			}
			if sa == 0 {
				e.Probe("stream_window_exhausted")
			}
			// a zero-length DATA frame (e.g. a bare END_STREAM) needs no credit,
			// even when a lowered INITIAL_WINDOW_SIZE made the window negative
			if ca < 0 && f.Length > 0 {
				e.Violate("conn_window_exceeded", "%s exceeded the connection window on conn %d by %d bytes (DATA len %d on stream %d; granted %d, sent %d)", who(f.From), f.Conn, -ca, f.Length, f.StreamID, defaultWindow+s.connUpd, s.connSent)
			}
			if sa < 0 && f.Length > 0 {
				e.Violate("stream_window_exceeded", "%s exceeded the window of stream %d on conn %d by %d bytes (DATA len %d; initial window %d, updates %d, sent %d)", who(f.From), f.StreamID, f.Conn, -sa, f.Length, s.iwsEff(), st.upd, st.sent)
			}
		}
		if l.CheckStreams {
			if st.ended {
				e.Violate("frame_after_end_stream", "%s sent DATA on conn %d stream %d after its own END_STREAM", who(f.From), f.Conn, f.StreamID)
			}
			if st.rst {
				e.Violate("frame_after_rst", "%s sent DATA on conn %d stream %d after its own RST_STREAM", who(f.From), f.Conn, f.StreamID)
			}
			if st.hdrs == 0 {
				e.Violate("data_before_headers", "%s sent DATA on conn %d stream %d before any HEADERS", who(f.From), f.Conn, f.StreamID)
			}
		}
		if l.CheckBytes && !st.dead {
			l.feedBytes(f, s, st)
		}
		if f.EndStream() {
			l.endStream(f, s, st)
		}
	case http2.FrameHeaders:
		st := s.stream(f.StreamID)
		if l.CheckWindows {
			lim := s.mfsEff()
			for _, n := range f.Fragments {
				if int64(n) > lim {
					e.Violate("header_fragment_too_large", "%s sent a HEADERS/CONTINUATION fragment of %d bytes (> peer's MAX_FRAME_SIZE %d) on conn %d stream %d", who(f.From), n, lim, f.Conn, f.StreamID)
				}
			}
			if len(f.Fragments) > 1 {
				e.Probe("continuation_used")
			}
		}
		if l.CheckStreams {
			if st.ended {
				e.Violate("frame_after_end_stream", "%s sent HEADERS on conn %d stream %d after its own END_STREAM", who(f.From), f.Conn, f.StreamID)
			}
			if st.rst {
				e.Violate("frame_after_rst", "%s sent HEADERS on conn %d stream %d after its own RST_STREAM", who(f.From), f.Conn, f.StreamID)
			}
		}
		st.hdrs++
		if f.From == 'c' && st.hdrs == 1 {
			if v := f.Header("x-sim-rpc"); len(v) == 1 {
				if n, err := strconv.ParseUint(v[0], 10, 32); err == nil {
					st.rpc, st.haveRPC = uint32(n), true
					// the server's side of the same stream learns the rpc too
					ps := peer.stream(f.StreamID)
					ps.rpc, ps.haveRPC = uint32(n), true
				}
			}
			if l.CheckMCS {
				l.opened(f, s, st)
			}
		}
		if f.From == 's' {
			if v := f.Header("x-sim-att"); len(v) == 1 {
				if n, err := strconv.Atoi(v[0]); err == nil {
					st.att = n
				}
			}
		}
		if f.EndStream() {
			l.endStream(f, s, st)
		}
	case http2.FrameRSTStream:
		st := s.stream(f.StreamID)
		if l.CheckStreams && st.rst {
			e.Probe("double_rst_stream")
		}
		st.rst = true
		l.closedFor(s, st)
		// the peer's view: its stream is reset from delivery; nothing to do here
	case http2.FrameSettings:
		if f.Ack() {
			// X acknowledges the oldest outstanding SETTINGS of the peer
			if len(s.iwsPending) > 0 {
				if v := s.iwsPending[0]; v >= 0 {
					s.iws = v
				}
				s.iwsPending = s.iwsPending[1:]
				if v := s.mfsPending[0]; v >= 0 {
					s.mfs = v
				}
				s.mfsPending = s.mfsPending[1:]
				if v := s.mcsPending[0]; v >= -1 && v != -2 {
					s.mcs = v
				}
				s.mcsPending = s.mcsPending[1:]
			}
		}
	}
}

// delivered: frame f (sent by the peer) has been read by X (ledger s).
func (l *Ledger) delivered(c *connLedger, s *sendSide, f *Frame) {
	switch f.Type {
	case http2.FrameWindowUpdate:
		if f.StreamID == 0 {
			s.connUpd += int64(f.Increment)
		} else {
			s.stream(f.StreamID).upd += int64(f.Increment)
		}
	case http2.FrameSettings:
		if !f.Ack() {
			iws, mfs, mcs := int64(-1), int64(-1), int64(-2)
			for _, st := range f.Settings {
				switch st.ID {
				case http2.SettingInitialWindowSize:
					iws = int64(st.Val)
				case http2.SettingMaxFrameSize:
					mfs = int64(st.Val)
				case http2.SettingMaxConcurrentStreams:
					mcs = int64(st.Val)
				}
			}
			s.iwsPending = append(s.iwsPending, iws)
			s.mfsPending = append(s.mfsPending, mfs)
			s.mcsPending = append(s.mcsPending, mcs)
		}
	case http2.FrameRSTStream:
		st := s.stream(f.StreamID)
		st.peerRst = true
		l.closedFor(s, st)
	case http2.FrameData, http2.FrameHeaders:
		if f.EndStream() {
			st := s.stream(f.StreamID)
			st.peerEnded = true
			if st.ended {
				l.closedFor(s, st)
			}
		}
	case http2.FrameGoAway:
		s.goAwayDelivered = true
		s.goAwayLast = f.LastStreamID
	}
}

// ---- C13: concurrent streams as seen from the client ----

func (l *Ledger) opened(f *Frame, s *sendSide, st *sendStream) {
	e := l.E
	if f.StreamID%2 == 0 {
		e.Violate("even_stream_id", "client opened even stream id %d on conn %d", f.StreamID, f.Conn)
	}
	if f.StreamID <= s.lastNewID {
		e.Violate("stream_id_not_increasing", "client opened stream %d after %d on conn %d", f.StreamID, s.lastNewID, f.Conn)
	}
	s.lastNewID = f.StreamID
	st.openedC = true
	open := 0
	for _, x := range s.streams {
		if x.openedC {
			open++
		}
	}
	if open > l.MaxOpen[f.Conn] {
		l.MaxOpen[f.Conn] = open
	}
	// the limit the client has acknowledged; while a SETTINGS is delivered but
	// not yet acked either value is acceptable (take the larger)
	lim := s.mcs
	for _, p := range s.mcsPending {
		if p == -2 {
			continue
		}
		if lim != -1 && (p == -1 || p > lim) {
			lim = p
		}
	}
	if lim >= 0 {
		if int64(open) == lim {
			e.Probe("at_max_concurrent_streams")
		}
		if int64(open) > lim {
			e.Violate("max_concurrent_streams_exceeded", "client has %d streams open on conn %d after opening stream %d; server's MAX_CONCURRENT_STREAMS is %d", open, f.Conn, f.StreamID, lim)
		}
	}
}

// closedFor: from X's point of view the stream no longer counts as open.
func (l *Ledger) closedFor(s *sendSide, st *sendStream) {
	st.openedC = false
}

func (l *Ledger) endStream(f *Frame, s *sendSide, st *sendStream) {
	e := l.E
	if l.CheckStreams && st.ended {
		e.Violate("double_end_stream", "%s sent END_STREAM twice on conn %d stream %d", who(f.From), f.Conn, f.StreamID)
	}
	st.ended = true
	if st.peerEnded || f.From == 's' {
		// server END_STREAM closes the stream for both; client END_STREAM closes
		// it only if the server had already ended
		if f.From == 's' || st.peerEnded {
			l.closedFor(s, st)
		}
	}
	if !l.CheckBytes || st.dead || !st.haveRPC || l.App == nil {
		return
	}
	k := StreamKey{RPC: st.rpc, Dir: f.From, Att: st.att}
	if st.inMsg || st.pfxN != 0 {
		e.Violate("end_stream_mid_message", "%s ended conn %d stream %d (rpc %d) in the middle of message %d (%d of %d bytes on the wire)", who(f.From), f.Conn, f.StreamID, st.rpc, st.msgIdx, st.msgOff, st.msgLen)
		return
	}
	sub := l.App.Submitted(k)
	// Every message whose Send returned nil must be there. A message whose Send
	// was started but reported an error may or may not be on the wire (e.g.
	// SendMsg returned io.EOF for an attempt that was then retried
	// transparently with the message already buffered); messages that were
	// never started are caught in feedBytes.
	if st.msgIdx < len(sub) {
		e.Violate("stream_incomplete", "%s ended conn %d stream %d (rpc %d att %d) normally with %d complete messages on the wire, but the application had successfully sent %d", who(f.From), f.Conn, f.StreamID, st.rpc, st.att, st.msgIdx, len(sub))
	}
	if st.msgIdx > len(sub) {
		e.Probe("failed_send_was_delivered")
	}
}

func (l *Ledger) feedBytes(f *Frame, s *sendSide, st *sendStream) {
	e := l.E
	if !st.haveRPC || l.App == nil {
		return
	}
	k := StreamKey{RPC: st.rpc, Dir: f.From, Att: st.att}
	b := f.Data
	for len(b) > 0 {
		if !st.inMsg {
			n := copy(st.pfx[st.pfxN:], b)
			st.pfxN += n
			b = b[n:]
			if st.pfxN < 5 {
				if len(b) == 0 {
					e.Probe("prefix_split_across_frames")
				}
				break
			}
			st.pfxN = 0
			st.comp = st.pfx[0] == 1
			st.msgLen = int(uint32(st.pfx[1])<<24 | uint32(st.pfx[2])<<16 | uint32(st.pfx[3])<<8 | uint32(st.pfx[4]))
			st.msgOff = 0
			st.inMsg = true
			started := l.App.Started(k)
			if st.pfx[0] > 1 {
				e.Violate("bad_message_flag", "%s sent message flag %d on conn %d stream %d", who(f.From), st.pfx[0], f.Conn, f.StreamID)
				st.dead = true
				return
			}
			if st.msgIdx >= len(started) {
				e.Violate("unsent_message_on_wire", "%s put message %d on conn %d stream %d (rpc %d att %d) but the application only started %d sends", who(f.From), st.msgIdx, f.Conn, f.StreamID, st.rpc, st.att, len(started))
				st.dead = true
				return
			}
			if !st.comp && started[st.msgIdx] != st.msgLen {
				e.Violate("message_length_mismatch", "%s: message %d on conn %d stream %d (rpc %d att %d) has length prefix %d, application sent %d bytes", who(f.From), st.msgIdx, f.Conn, f.StreamID, st.rpc, st.att, st.msgLen, started[st.msgIdx])
				st.dead = true
				return
			}
			if st.msgLen == 0 {
				st.inMsg = false
				st.msgIdx++
			}
			continue
		}
		n := st.msgLen - st.msgOff
		if n > len(b) {
			n = len(b)
		}
		if !st.comp {
			att := uint32(0)
			if f.From == 's' {
				att = uint32(st.att)
			}
			if off := CheckPat(b[:n], st.rpc^att<<24, f.From, st.msgIdx, st.msgOff); off >= 0 {
				e.Violate("payload_mismatch", "%s: conn %d stream %d (rpc %d att %d) message %d offset %d: wire byte %#x is not the byte the application wrote (%#x): lost, duplicated, reordered or foreign data", who(f.From), f.Conn, f.StreamID, st.rpc, st.att, st.msgIdx, st.msgOff+off, b[off], PatByte(st.rpc^att<<24, f.From, st.msgIdx, st.msgOff+off))
				st.dead = true
				return
			}
		}
		st.msgOff += n
		b = b[n:]
		if st.msgOff == st.msgLen {
			st.inMsg = false
			st.msgIdx++
		} else if len(b) == 0 {
			e.Probe("message_split_across_frames")
		}
	}
}

// Summary returns a short description of what the ledger saw.
func (l *Ledger) Summary() string {
	return fmt.Sprintf("conns=%d data_frames=%d data_bytes=%d", len(l.conns), l.DataFrames, l.DataBytes)
}

// StreamAvail reports sender X's remaining stream/conn window and bytes on
// the wire for a stream (used by liveness oracles at quiescence).
func (l *Ledger) StreamAvail(conn int, from byte, id uint32) (streamAvail, connAvail, wire int64, ok bool) {
	c := l.conns[conn]
	if c == nil {
		return 0, 0, 0, false
	}
	s := c.side[sideIdx(from)]
	st := s.streams[id]
	if st == nil {
		return 0, 0, 0, false
	}
	return s.iws + st.upd - st.sent, defaultWindow + s.connUpd - s.connSent, st.sent, true
}

// ForEachStream iterates over sender X's streams on a connection.
func (l *Ledger) ForEachStream(fn func(conn int, from byte, id uint32, rpc uint32, haveRPC bool, att int, ended, rst, peerRst, peerEnded bool, msgIdx int, inMsg bool)) {
	for ci, c := range l.conns {
		for si, s := range c.side {
			from := byte('c')
			if si == 1 {
				from = 's'
			}
			for id, st := range s.streams {
				fn(ci, from, id, st.rpc, st.haveRPC, st.att, st.ended, st.rst, st.peerRst, st.peerEnded, st.msgIdx, st.inMsg || st.pfxN > 0)
			}
		}
	}
}
