// Package tap decodes the HTTP/2 byte streams that cross simnet with an
// independent decoder (x/net/http2.Framer + hpack over a private buffer) and
// feeds frame events to ledgers.
package tap

import (
	"bytes"
	"encoding/binary"

	"golang.org/x/net/http2"
	"golang.org/x/net/http2/hpack"
	"google.golang.org/grpc/internal/zzverif/core"
	"google.golang.org/grpc/internal/zzverif/simnet"
)

const clientPreface = "PRI * HTTP/2.0\r\n\r\nSM\r\n\r\n"

// Frame is a decoded frame event.
type Frame struct {
	Seq      uint64
	SimNs    int64
	Conn     int
	From     byte // 'c' or 's': who sent it
	Phase    byte // 'w' written by sender, 'd' delivered to (read by) receiver
	Type     http2.FrameType
	Flags    http2.Flags
	StreamID uint32
	Length   int // payload length from the frame header
	// DATA
	Data []byte // payload without padding (valid only during the callback)
	// HEADERS (+CONTINUATION, already merged)
	Fields     []hpack.HeaderField
	Fragments  []int // payload length of HEADERS and each CONTINUATION frame
	HdrTrunc   bool
	HdrInvalid bool
	// SETTINGS
	Settings []http2.Setting
	// WINDOW_UPDATE
	Increment uint32
	// RST_STREAM / GOAWAY
	ErrCode      http2.ErrCode
	LastStreamID uint32
	DebugData    []byte
	// PING
	PingData [8]byte
}

func (f *Frame) EndStream() bool { return f.Flags&http2.FlagDataEndStream != 0 }
func (f *Frame) Ack() bool       { return f.Flags&http2.FlagSettingsAck != 0 }

// Header returns the values of a header field.
func (f *Frame) Header(name string) []string {
	var out []string
	for _, hf := range f.Fields {
		if hf.Name == name {
			out = append(out, hf.Value)
		}
	}
	return out
}

// Dir parses one direction of one connection at one observation point.
type Dir struct {
	e        *core.Env
	conn     int
	from     byte
	phase    byte
	buf      []byte
	preface  int // client preface bytes still expected
	rd       bytes.Buffer
	fr       *http2.Framer
	dec      *hpack.Decoder
	Dead     bool   // decoding failed (garbage on the wire); no more events
	DeadWhy  string // why
	sink     func(f *Frame)
	frags    []int
	Bytes    int64
	FrameCnt int
}

func newDir(e *core.Env, conn int, from, phase byte, sink func(f *Frame)) *Dir {
	d := &Dir{e: e, conn: conn, from: from, phase: phase, sink: sink}
	if from == 'c' {
		d.preface = len(clientPreface)
	}
	d.fr = http2.NewFramer(nil, &d.rd)
	d.fr.SetMaxReadFrameSize(1<<24 - 1)
	d.dec = hpack.NewDecoder(4096, nil)
	d.dec.SetAllowedMaxDynamicTableSize(1 << 24)
	d.fr.ReadMetaHeaders = d.dec
	d.fr.MaxHeaderListSize = 1 << 26
	return d
}

// Feed consumes bytes seen at this observation point.
func (d *Dir) Feed(p []byte) {
	d.Bytes += int64(len(p))
	if d.Dead {
		return
	}
	d.buf = append(d.buf, p...)
	if d.preface > 0 {
		n := d.preface
		if n > len(d.buf) {
			n = len(d.buf)
		}
		off := len(clientPreface) - d.preface
		if string(d.buf[:n]) != clientPreface[off:off+n] {
			d.Dead, d.DeadWhy = true, "bad client preface"
			return
		}
		d.buf = d.buf[n:]
		d.preface -= n
		if d.preface > 0 {
			return
		}
	}
	for len(d.buf) >= 9 {
		length := int(d.buf[0])<<16 | int(d.buf[1])<<8 | int(d.buf[2])
		if len(d.buf) < 9+length {
			return
		}
		ftype := http2.FrameType(d.buf[3])
		flags := http2.Flags(d.buf[4])
		// HEADERS without END_HEADERS and CONTINUATION: accumulate the
		// fragment sizes; the Framer merges them when it sees END_HEADERS.
		if ftype == http2.FrameHeaders || ftype == http2.FrameContinuation {
			d.frags = append(d.frags, length)
		}
		d.rd.Write(d.buf[:9+length])
		d.buf = d.buf[9+length:]
		if (ftype == http2.FrameHeaders || ftype == http2.FrameContinuation) && flags&http2.FlagHeadersEndHeaders == 0 {
			continue
		}
		// Read everything that was handed to the framer: normally exactly one
		// frame (HEADERS+CONTINUATIONs are merged), but when the framer rejects
		// a HEADERS frame itself with a stream error it consumes only that
		// frame and the buffered CONTINUATIONs must not stay behind (they
		// would shift every later event by one frame).
		for d.rd.Len() > 0 && !d.Dead {
			d.readOne()
		}
	}
}

func (d *Dir) readOne() {
	fr, err := d.fr.ReadFrame()
	if err != nil {
		if se, ok := err.(http2.StreamError); ok {
			// malformed header block for one stream: report it as an
			// invalid HEADERS event and go on
			d.emit(&Frame{Type: http2.FrameHeaders, StreamID: se.StreamID, HdrInvalid: true, Fragments: d.frags})
			d.frags = nil
			return
		}
		d.Dead, d.DeadWhy = true, err.Error()
		return
	}
	d.FrameCnt++
	h := fr.Header()
	ev := &Frame{Type: h.Type, Flags: h.Flags, StreamID: h.StreamID, Length: int(h.Length)}
	switch f := fr.(type) {
	case *http2.DataFrame:
		ev.Data = f.Data()
	case *http2.MetaHeadersFrame:
		ev.Type = http2.FrameHeaders
		ev.Flags = f.HeadersFrame.Flags
		ev.StreamID = f.HeadersFrame.StreamID
		ev.Length = int(f.HeadersFrame.Length)
		ev.Fields = f.Fields
		ev.HdrTrunc = f.Truncated
		ev.Fragments = d.frags
		d.frags = nil
	case *http2.SettingsFrame:
		f.ForeachSetting(func(s http2.Setting) error { ev.Settings = append(ev.Settings, s); return nil })
	case *http2.WindowUpdateFrame:
		ev.Increment = f.Increment
	case *http2.RSTStreamFrame:
		ev.ErrCode = f.ErrCode
	case *http2.GoAwayFrame:
		ev.ErrCode, ev.LastStreamID = f.ErrCode, f.LastStreamID
		ev.DebugData = append([]byte{}, f.DebugData()...)
	case *http2.PingFrame:
		ev.PingData = f.Data
	}
	d.emit(ev)
}

func (d *Dir) emit(ev *Frame) {
	ev.Seq = d.e.Next()
	ev.SimNs = d.e.SimNs()
	ev.Conn, ev.From, ev.Phase = d.conn, d.from, d.phase
	if d.sink != nil {
		d.sink(ev)
	}
}

// ConnTap observes one simnet pair at four points.
type ConnTap struct {
	Pair           *simnet.Pair
	CW, CR, SW, SR *Dir // client wrote, client read (= delivered s2c), server wrote, server read
}

// Attach installs the taps on a fresh pair. sink receives every frame event:
// Phase 'w' when the sender writes it, 'd' when the receiver has read its last
// byte.
func Attach(e *core.Env, p *simnet.Pair, sink func(f *Frame)) *ConnTap {
	t := &ConnTap{Pair: p}
	t.CW = newDir(e, p.Index, 'c', 'w', sink)
	t.SR = newDir(e, p.Index, 'c', 'd', sink)
	t.SW = newDir(e, p.Index, 's', 'w', sink)
	t.CR = newDir(e, p.Index, 's', 'd', sink)
	p.C.OnWrite = t.CW.Feed
	p.C.OnRead = t.CR.Feed
	p.S.OnWrite = t.SW.Feed
	p.S.OnRead = t.SR.Feed
	return t
}

// PatByte is the attributable payload pattern: byte off of message msg sent by
// side dir ('c' or 's') on logical RPC rpc.
func PatByte(rpc uint32, dir byte, msg int, off int) byte {
	x := uint64(rpc)*0x9e3779b97f4a7c15 ^ uint64(dir)<<56 ^ uint64(msg)*0xbf58476d1ce4e5b9
	x ^= uint64(off) * 0x94d049bb133111eb
	x ^= x >> 29
	x *= 0xff51afd7ed558ccd
	x ^= x >> 32
	return byte(x)
}

// FillPat fills b with the pattern of (rpc, dir, msg).
func FillPat(b []byte, rpc uint32, dir byte, msg int) {
	for i := range b {
		b[i] = PatByte(rpc, dir, msg, i)
	}
}

// CheckPat returns the first offset at which b deviates from the pattern, or -1.
func CheckPat(b []byte, rpc uint32, dir byte, msg int, from int) int {
	for i := range b {
		if b[i] != PatByte(rpc, dir, msg, from+i) {
			return i
		}
	}
	return -1
}

// MsgPrefix builds the 5-byte gRPC message prefix.
func MsgPrefix(compressed bool, n int) [5]byte {
	var p [5]byte
	if compressed {
		p[0] = 1
	}
	binary.BigEndian.PutUint32(p[1:], uint32(n))
	return p
}
