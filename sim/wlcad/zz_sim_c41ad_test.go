package adaptive

import (
	"fmt"
	"sync"
	"time"

	"google.golang.org/grpc/internal/zzverif/core"
)

// C41 (adaptive throttler clause): the throttle probability is computed from
// the accept/throttle counts of exactly the last 30 seconds, for every timeline
// of events including clock steps backwards.
//
// The throttler is driven through its two seams (timeNowFunc, randFunc). The
// clock it sees is the bubble clock plus a scripted offset (steps forwards and
// backwards). The probability is never read: it is bracketed by calling
// ShouldThrottle with a chosen "random" number r (false <=> p <= r).
//
// Reference: every registered event keeps the timestamp the throttler saw.
// With M = the largest timestamp shown to the throttler so far and now = the
// timestamp of the question,
//   - an event MUST count if M-ts < 30 s - one bin (it is inside the window
//     even for the most advanced clock ever seen),
//   - an event MUST NOT count if now-ts > 30 s,
//   - anything in between may or may not count (bin granularity, steps back).
// p = (requests - 2*accepts)/(requests + 8) is monotone in both counts, which
// gives [pLo, pHi]; without clock steps and away from the window edge the
// bracket is a single value.

const (
	c41adWindow = 30 * time.Second
	c41adBin    = c41adWindow / 100
)

type c41adBurstOp struct {
	Kind      string `json:"kind"` // resp | force | pass
	Throttled bool   `json:"throttled,omitempty"`
	SleepNs   int64  `json:"sleep_ns,omitempty"`
	SkewNs    int64  `json:"skew_ns,omitempty"` // this call sees the clock shifted by that much more
}

type c41adOp struct {
	Kind      string           `json:"kind"` // sleep | skew | resp | ask | probe_hi | probe_lo | burst
	Ns        int64            `json:"ns,omitempty"`
	N         int              `json:"n,omitempty"`
	Throttled bool             `json:"throttled,omitempty"`
	R         float64          `json:"r,omitempty"`
	Burst     [][]c41adBurstOp `json:"burst,omitempty"`
}

type c41adScenario struct {
	Sched   core.Sched `json:"sched"`
	StartNs int64      `json:"start_ns"` // initial clock offset (bin alignment)
	Ops     []c41adOp  `json:"ops"`
}

func (s *c41adScenario) SchedP() *core.Sched { return &s.Sched }
func (s *c41adScenario) Shape() string {
	k := map[string]int{}
	for _, o := range s.Ops {
		k[o.Kind]++
	}
	return fmt.Sprintf("ops=%d skew=%d burst=%d probe=%d", len(s.Ops), k["skew"], k["burst"], k["probe_hi"]+k["probe_lo"]+k["ask"])
}
func (s *c41adScenario) Validate() error {
	for _, o := range s.Ops {
		switch o.Kind {
		case "sleep":
			if o.Ns < 0 {
				return fmt.Errorf("negative sleep")
			}
		case "skew", "resp", "ask", "probe_hi", "probe_lo", "burst":
		default:
			return fmt.Errorf("bad op %q", o.Kind)
		}
		for _, g := range o.Burst {
			for _, b := range g {
				if b.SleepNs < 0 || (b.Kind != "resp" && b.Kind != "force" && b.Kind != "pass") {
					return fmt.Errorf("bad burst op")
				}
			}
		}
	}
	return nil
}

func c41adDur(r *core.Rand) int64 {
	switch r.Intn(12) {
	case 0:
		return int64(r.Intn(1000)) // ns
	case 1, 2:
		return int64(r.Intn(300)) * int64(time.Millisecond)
	case 3, 4, 5:
		return int64(r.Intn(5000)) * int64(time.Millisecond)
	case 6, 7:
		return int64(r.Range(5, 29)) * int64(time.Second)
	case 8, 9:
		// around the window edge
		return int64(c41adWindow) + int64(r.Range(-700, 700))*int64(time.Millisecond) + int64(r.Intn(3)-1)
	case 10:
		return int64(c41adWindow) - int64(c41adBin)*int64(r.Range(0, 3)) + int64(r.Intn(3)-1)
	default:
		return int64(r.Range(31, 90)) * int64(time.Second)
	}
}

func genC41ad(seed uint64, tier string) *c41adScenario {
	r := core.NewRand(seed)
	s := &c41adScenario{Sched: simGenSched(r, seed)}
	s.StartNs = int64(r.Intn(int(c41adBin))) * int64(r.Intn(2))
	n := r.Range(6, 40)
	if tier == "thorough" {
		n = r.Range(10, 120)
	}
	backwards := r.Chance(3, 4)
	for i := 0; i < n; i++ {
		switch k := r.Intn(20); {
		case k < 5:
			s.Ops = append(s.Ops, c41adOp{Kind: "sleep", Ns: c41adDur(r)})
		case k < 7 && backwards:
			d := c41adDur(r)
			if r.Chance(2, 3) {
				d = -d
			}
			s.Ops = append(s.Ops, c41adOp{Kind: "skew", Ns: d})
		case k < 12:
			s.Ops = append(s.Ops, c41adOp{Kind: "resp", N: core.Pick(r, 1, 1, 2, 3, 5, 17), Throttled: r.Chance(1, 2)})
		case k < 14:
			s.Ops = append(s.Ops, c41adOp{Kind: "ask", R: float64(r.Intn(2001)-1000) / 1000})
		case k < 16:
			s.Ops = append(s.Ops, c41adOp{Kind: "probe_hi"})
		case k < 18:
			s.Ops = append(s.Ops, c41adOp{Kind: "probe_lo"})
		default:
			var gs [][]c41adBurstOp
			for g := r.Range(2, 4); g > 0; g-- {
				var ops []c41adBurstOp
				for j := r.Range(1, 4); j > 0; j-- {
					b := c41adBurstOp{Kind: core.Pick(r, "resp", "resp", "force", "pass"), Throttled: r.Chance(1, 2)}
					if r.Chance(1, 3) {
						b.SleepNs = int64(r.Intn(400)) * int64(time.Millisecond)
					}
					if backwards && r.Chance(1, 3) {
						b.SkewNs = -c41adDur(r) / int64(core.Pick(r, 1, 10, 100))
					}
					ops = append(ops, b)
				}
				gs = append(gs, ops)
			}
			s.Ops = append(s.Ops, c41adOp{Kind: "burst", Burst: gs})
		}
	}
	// always end with a bracket from both sides
	s.Ops = append(s.Ops, c41adOp{Kind: "probe_hi"}, c41adOp{Kind: "probe_lo"})
	return s
}

type c41adEv struct {
	ts     int64
	accept bool
}

type c41adModel struct {
	e       *core.Env
	evs     []c41adEv
	maxSeen int64
	off     int64 // scripted clock offset
	curR    float64
	curOff  int64
}

func (m *c41adModel) seen() int64 { return time.Now().UnixNano() + m.off + m.curOff }

func (m *c41adModel) touch(ts int64) {
	if ts > m.maxSeen {
		m.maxSeen = ts
	}
}

// bounds returns the bracket of the throttle probability for a question asked
// at timestamp now.
func (m *c41adModel) bounds(now int64) (pLo, pHi float64, exact bool) {
	M := m.maxSeen
	if now > M {
		M = now
	}
	var aLo, aHi, tLo, tHi float64
	for _, ev := range m.evs {
		must := M-ev.ts < int64(c41adWindow-c41adBin)
		mustNot := now-ev.ts > int64(c41adWindow)
		lo, hi := 0.0, 1.0
		if must {
			lo = 1
		}
		if mustNot {
			hi = 0
		}
		if lo > hi {
			// cannot happen: M >= now
			lo = hi
		}
		if ev.accept {
			aLo += lo
			aHi += hi
		} else {
			tLo += lo
			tHi += hi
		}
	}
	f := func(a, t float64) float64 { return (t - a) / (a + t + 8) }
	return f(aHi, tLo), f(aLo, tHi), aLo == aHi && tLo == tHi
}

func runC41ad(e *core.Env, s *c41adScenario) {
	m := &c41adModel{e: e, off: s.StartNs}
	oldNow, oldRand := timeNowFunc, randFunc
	defer func() { timeNowFunc, randFunc = oldNow, oldRand }()
	// Both seams are read at the entry of a call, before its first
	// synchronisation operation, i.e. atomically with the assignment of
	// curR/curOff that precedes the call.
	timeNowFunc = func() time.Time { return time.Unix(0, m.seen()) }
	randFunc = func() float64 { return m.curR }
	th := New()

	ask := func(who string, r float64, off int64) (bool, int64) {
		m.curR, m.curOff = r, off
		ts := m.seen()
		res := th.ShouldThrottle()
		m.touch(ts)
		if res {
			m.evs = append(m.evs, c41adEv{ts: ts})
		}
		e.Logf("%s ask r=%v ts=%d -> %v", who, r, ts, res)
		return res, ts
	}
	resp := func(who string, throttled bool, off int64) {
		m.curOff = off
		ts := m.seen()
		th.RegisterBackendResponse(throttled)
		m.touch(ts)
		if m.maxSeen-ts > int64(c41adWindow) {
			e.Probe("event_older_than_window_when_added")
		}
		m.evs = append(m.evs, c41adEv{ts: ts, accept: !throttled})
		e.Logf("%s resp throttled=%v ts=%d", who, throttled, ts)
	}
	judge := func(what string, r float64, res bool, pLo, pHi float64, ts int64) {
		const eps = 1e-12
		if res && r >= pHi+eps {
			e.Violate("probability_window", "%s: ShouldThrottle()=true with rand %v although the counts of the last 30 s give a probability of at most %v (ts %d, max clock seen %d, %d events)", what, r, pHi, ts, m.maxSeen, len(m.evs))
		}
		if !res && r < pLo-eps {
			e.Violate("probability_window", "%s: ShouldThrottle()=false with rand %v although the counts of the last 30 s give a probability of at least %v (ts %d, max clock seen %d, %d events)", what, r, pLo, ts, m.maxSeen, len(m.evs))
		}
	}

	for i, op := range s.Ops {
		switch op.Kind {
		case "sleep":
			if op.Ns > int64(c41adWindow) {
				e.Probe("gap_over_30s")
			}
			time.Sleep(time.Duration(op.Ns))
		case "skew":
			m.off += op.Ns
			if op.Ns < 0 {
				e.Probe("clock_step_back")
				e.Fault("clock_step_back")
			} else {
				e.Fault("clock_step_forward")
			}
			e.Logf("skew %d -> off %d", op.Ns, m.off)
		case "resp":
			for k := 0; k < op.N; k++ {
				resp(fmt.Sprintf("op%d", i), op.Throttled, 0)
			}
		case "ask", "probe_hi", "probe_lo":
			m.curOff = 0
			ts := m.seen()
			pLo, pHi, exact := m.bounds(ts)
			r := op.R
			switch op.Kind {
			case "probe_hi":
				r = pHi + 1e-9
			case "probe_lo":
				r = pLo - 1e-9
			}
			if exact {
				e.Probe("bracket_exact")
			} else {
				e.Probe("bracket_wide")
			}
			if pHi > 0 {
				e.Probe("probability_positive")
			}
			res, _ := ask(fmt.Sprintf("op%d %s", i, op.Kind), r, 0)
			if res {
				e.Probe("throttled")
			}
			judge(fmt.Sprintf("op %d (%s)", i, op.Kind), r, res, pLo, pHi, ts)
		case "burst":
			e.Probe("burst")
			var wg sync.WaitGroup
			for gi, ops := range op.Burst {
				wg.Add(1)
				go func() {
					defer wg.Done()
					for bi, b := range ops {
						if b.SleepNs > 0 {
							time.Sleep(time.Duration(b.SleepNs))
						}
						who := fmt.Sprintf("op%d g%d.%d", i, gi, bi)
						switch b.Kind {
						case "resp":
							resp(who, b.Throttled, b.SkewNs)
						case "force":
							// p > -1 always: a "random" number of -1 must throttle
							if res, _ := ask(who, -1, b.SkewNs); !res {
								e.Violate("probability_range", "%s: ShouldThrottle()=false with rand -1 (the probability is always above -1)", who)
							}
						case "pass":
							if res, _ := ask(who, 2, b.SkewNs); res {
								e.Violate("probability_range", "%s: ShouldThrottle()=true with rand 2 (the probability is at most 1)", who)
							}
						}
					}
				}()
			}
			wg.Wait()
		}
	}
}

func init() { core.Register("C41ad", genC41ad, runC41ad) }
