#!/usr/bin/env python3
"""Generate the detrt overlay: a patched copy of a few Go runtime/std files.

usage: mkpatch.py <GOROOT> <outdir>

Writes patched sources under <outdir>/src and <outdir>/overlay.json
({"Replace": {GOROOT file: patched file}}).  Every anchor is asserted to
occur exactly once so that a GOROOT mismatch fails loudly (exit 2).
"""
import json, os, re, sys

GR = sys.argv[1]
OUT = sys.argv[2]
os.makedirs(os.path.join(OUT, "src"), exist_ok=True)
repl = {}


def die(msg):
    sys.stderr.write("mkpatch: " + msg + "\n")
    sys.exit(2)


def emit(rel, s):
    p = os.path.join(GR, "src", rel)
    o = os.path.join(OUT, "src", rel.replace("/", "__"))
    old = None
    if os.path.exists(o):
        old = open(o).read()
    if old != s:
        open(o, "w").write(s)
    repl[p] = o


def patch(rel, edits, append=""):
    p = os.path.join(GR, "src", rel)
    s = open(p).read()
    for old, new in edits:
        if s.count(old) != 1:
            die("anchor count %d != 1 in %s: %r" % (s.count(old), rel, old))
        s = s.replace(old, new)
    emit(rel, s + append)


patch("runtime/proc.go", [
    ("	if pp.schedtick%61 == 0 && !sched.runq.empty() {",
     "	if !simsched.enabled && pp.schedtick%61 == 0 && !sched.runq.empty() {"),
    ("	// local runq\n	if gp, inheritTime := runqget(pp); gp != nil {",
     "	if simsched.enabled {\n		if gp := simPick(pp); gp != nil {\n			return gp, false, false\n		}\n	}\n\n	// local runq\n	if gp, inheritTime := runqget(pp); gp != nil {"),
    ("		pp := allp[i]\n		if pp == nil || atomic.Load(&pp.status) != _Prunning {",
     "		pp := allp[i]\n		if simsched.enabled {\n			continue\n		}\n		if pp == nil || atomic.Load(&pp.status) != _Prunning {"),
])
patch("runtime/select.go", [
    ("j := cheaprandn(uint32(norder + 1))", "j := simSelectRandn(uint32(norder + 1))"),
    ("func selectgo(cas0 *scase, order0 *uint16, pc0 *uintptr, nsends, nrecvs int, block bool) (int, bool) {\n",
     "func selectgo(cas0 *scase, order0 *uint16, pc0 *uintptr, nsends, nrecvs int, block bool) (int, bool) {\n	simYield()\n"),
])
patch("runtime/chan.go", [
    ("func chansend(c *hchan, ep unsafe.Pointer, block bool, callerpc uintptr) bool {\n",
     "func chansend(c *hchan, ep unsafe.Pointer, block bool, callerpc uintptr) bool {\n	simYield()\n"),
    ("func closechan(c *hchan) {\n", "func closechan(c *hchan) {\n	simYield()\n"),
    ("func chanrecv(c *hchan, ep unsafe.Pointer, block bool) (selected, received bool) {\n",
     "func chanrecv(c *hchan, ep unsafe.Pointer, block bool) (selected, received bool) {\n	simYield()\n"),
])
patch("runtime/time.go", [
    ("			t.rand = cheaprand()", "			t.rand = simTimerRand()"),
])
patch("runtime/symtab.go", [
    ("					ci := cheaprandn(uint32(len(cache.entries[ck])))", "					ci := simHostRandn(uint32(len(cache.entries[ck])))"),
])
_s = open(os.path.join(GR, "src", "runtime/iface.go")).read()
if _s.count("cheaprand()") != 4:
    die("iface.go: unexpected cheaprand count")
emit("runtime/iface.go", _s.replace("cheaprand()", "simHostRand()"))
patch("runtime/preempt.go", [
    ("	return mp.locks == 0 && mp.mallocing == 0 && mp.preemptoff == \"\" && mp.p.ptr().status == _Prunning && mp.curg != nil && readgstatus(mp.curg)&^_Gscan != _Gsyscall",
     "	if simsched.enabled && mp.curg != nil && mp.curg.bubble != nil {\n		return false\n	}\n	return mp.locks == 0 && mp.mallocing == 0 && mp.preemptoff == \"\" && mp.p.ptr().status == _Prunning && mp.curg != nil && readgstatus(mp.curg)&^_Gscan != _Gsyscall"),
])
# A goroutine blocked on a sync.Mutex/RWMutex/WaitGroup/semaphore can only be
# woken by another goroutine of the same bubble in our worlds (everything runs
# inside the bubble), so it must count as durably blocked: grpc holds mutexes
# across blocking operations (e.g. clientStream.mu across a replay that waits
# for flow control), and without this the fake clock would stop for good.
patch("runtime/runtime2.go", [
    ("	valgrindStackID uintptr\n}",
     "	valgrindStackID uintptr\n\n	// detrt: scheduling points passed by this goroutine at the virtual instant\n	// simNow of run simGen (spin guard: who is spinning?)\n	simSites uint32\n	simGen   uint32\n	simNow   int64\n	simChargeEnd int64\n}"),
    ("	waitReasonSyncCondWait:          true,\n	waitReasonSynctestWaitGroupWait: true,",
     "	waitReasonSyncCondWait:          true,\n	waitReasonSyncMutexLock:         true,\n	waitReasonSyncRWMutexRLock:      true,\n	waitReasonSyncRWMutexLock:       true,\n	waitReasonSyncWaitGroupWait:     true,\n	waitReasonSemacquire:            true,\n	waitReasonSynctestWaitGroupWait: true,"),
])
patch("runtime/sema.go", [
    ("func internal_sync_nanotime() int64 {\n	return nanotime()",
     "func internal_sync_nanotime() int64 {\n	if gp := getg(); simsched.enabled && gp.bubble != nil {\n		return gp.bubble.now\n	}\n	return nanotime()"),
])
patch("runtime/rand.go", [
    ("	globalRand.state.Init(*seed)\n	clear(seed[:])",
     "	for i := range seed {\n		seed[i] = byte(i*7 + 1)\n	}\n	globalRand.state.Init(*seed)\n	clear(seed[:])"),
    ("func rand() uint64 {\n",
     "func rand() uint64 {\n	if simsched.enabled {\n		if gp := getg(); gp.bubble != nil {\n			return simNext(&simsched.mapr)\n		}\n	}\n"),
    ("func cheaprand() uint32 {\n	mp := getg().m\n",
     "func cheaprand() uint32 {\n	if simsched.enabled {\n		if gp := getg(); gp.bubble != nil {\n			return uint32(simNext(&simsched.mapr) >> 32)\n		}\n	}\n	mp := getg().m\n"),
])
patch("internal/sync/mutex.go", [
    ("func (m *Mutex) Lock() {\n", "func (m *Mutex) Lock() {\n	runtime_simYield()\n"),
], append='''

//go:linkname runtime_simYield
func runtime_simYield()
''')
# sync.Map (HashTrieMap) seeds itself from runtime.rand at first use. Maps that
# are process globals (encoding/json's type caches, reflect, ...) are often
# first touched outside the bubble, where the value depends on process history
# (which M, how many earlier draws); the seed decides the trie shape and so the
# number of atomic operations (= scheduling points) per lookup. Pin it.
patch("internal/sync/hashtriemap.go", [
    ("	ht.seed = uintptr(runtime_rand())", "	ht.seed = uintptr(0x9e3779b97f4a7c15 & (1<<(8*unsafe.Sizeof(uintptr(0))-1) - 1))\n	_ = runtime_rand"),
])
patch("sync/cond.go", [
    ("func (c *Cond) Wait() {\n", "func (c *Cond) Wait() {\n	runtime_simYield()\n"),
    ("func (c *Cond) Signal() {\n", "func (c *Cond) Signal() {\n	runtime_simYield()\n"),
    ("func (c *Cond) Broadcast() {\n", "func (c *Cond) Broadcast() {\n	runtime_simYield()\n"),
], append='''

//go:linkname runtime_simYield
func runtime_simYield()
''')

SIMSCHED = r'''
package runtime

import (
	"internal/runtime/atomic"
	"internal/runtime/math"
	"unsafe"
)

const simMaxDec = 1 << 22
const simSpinLimit = 50000

type simschedState struct {
	enabled    bool
	play       bool   // scripted-decision playback
	over       bool   // decision buffer overflowed
	sched      uint64 // xorshift64* state for pick/yield decisions
	sel        uint64 // select order, timer tie-break, math/rand/v2
	mapr       uint64 // runtime rand()/cheaprand(): map seeds and iteration
	yieldThr   uint32 // yield iff draw16 >= 65536-yieldThr
	picks      uint64
	yields     uint64
	yieldSites uint64
	multi      uint64
	hash       uint64 // rolling hash of (goid-rank,n,k) of every multi pick
	diverge    uint64 // playback decisions that did not fit (k >= n)
	spinSites  uint64 // yield sites visited since the bubble clock last moved
	spinNow    int64
	spinSleeps uint64 // virtual-time sleeps injected into spinning runs
	spinLevel  uint32
	spinEnd    int64
	spinSleepers int32 // goroutines currently inside an injected spin-guard sleep
	pct        bool   // PCT-style priority scheduling instead of uniform picks
	pctDepth   uint32
	pctGen     uint32
	pctK       [8]uint64 // change points, in yield sites
	sdK        uint32 // site delays: a yield site whose call-stack hash % sdK == sdk defers the goroutine
	sdk        uint32
	sdLIFO     bool   // when only deferred goroutines are runnable: resume the one deferred last (else a random one)
	sdSeq      uint32
	sdCount    uint64 // deferrals
	traceOn    bool   // record the call stack of every yield site (debugging)
	ntrace     uint32
	ndec       uint32 // decisions recorded / consumed
	nplay      uint32 // decisions available for playback
	dec        [simMaxDec]uint8
}

var simsched simschedState

const simPCTTab = 1 << 15

type simPCTEntry struct {
	goid uint64
	prio uint32 // 0: not assigned yet
	gen  uint32
	dfr  uint32 // 0: not deferred; else the sequence number of the deferral
}

var simPCT [simPCTTab]simPCTEntry

const simTraceMax = 1 << 19

// simTrace holds, for the first simTraceMax yield sites of a run, four return
// PCs of the goroutine that reached the site (debugging aid for determinism
// hunts: dump it in two processes and diff).
var simTrace [simTraceMax][4]uintptr

//go:linkname simSetSiteTrace
func simSetSiteTrace(on bool) { simsched.traceOn = on }

//go:linkname simGetSiteTrace
func simGetSiteTrace(i uint32) (pcs [4]uintptr, ok bool) {
	if i >= simsched.ntrace {
		return pcs, false
	}
	return simTrace[i], true
}

//go:nosplit
func simNext(s *uint64) uint64 {
	x := *s
	x ^= x >> 12
	x ^= x << 25
	x ^= x >> 27
	*s = x
	return x * 2685821657736338717
}

//go:nosplit
func simRandn(s *uint64, n uint32) uint32 {
	return uint32((uint64(uint32(simNext(s)>>32)) * uint64(n)) >> 32)
}

func simSelectRandn(n uint32) uint32 {
	if !simsched.enabled {
		return cheaprandn(n)
	}
	gp := getg()
	if gp.bubble == nil {
		return cheaprandn(n)
	}
	return simRandn(&simsched.sel, n)
}

// simHostRand: randomness for process-global runtime caches (pcvalue cache,
// interface-switch / type-assert caches). Their hit pattern depends on what the
// process did before this run, so they must not consume from a per-run stream.
//go:nosplit
func simHostRand() uint32 {
	mp := getg().m
	mp.cheaprand += 0xa0761d6478bd642f
	hi, lo := math.Mul64(mp.cheaprand, mp.cheaprand^0xe7037ed1a0b428db)
	return uint32(hi ^ lo)
}

//go:nosplit
func simHostRandn(n uint32) uint32 {
	return uint32((uint64(simHostRand()) * uint64(n)) >> 32)
}

func simTimerRand() uint32 {
	if !simsched.enabled {
		return cheaprand()
	}
	return uint32(simNext(&simsched.sel) >> 32)
}

//go:linkname simRand
func simRand() (uint64, bool) {
	if !simsched.enabled || getg().bubble == nil {
		return 0, false
	}
	return simNext(&simsched.sel), true
}

func simMix(seed, k uint64) uint64 {
	z := seed + k*0x9e3779b97f4a7c15
	z = (z ^ (z >> 30)) * 0xbf58476d1ce4e5b9
	z = (z ^ (z >> 27)) * 0x94d049bb133111eb
	z ^= z >> 31
	if z == 0 {
		z = 1
	}
	return z
}

// simEnable switches the deterministic scheduler on. Must be called from the
// goroutine that then calls synctest.Test. schedSeed seeds the pick/yield
// stream, auxSeed the select/timer/rand/map streams.
//
//go:linkname simEnable
func simEnable(schedSeed, auxSeed uint64, yieldThr uint32) {
	if gomaxprocs != 1 {
		throw("simEnable: GOMAXPROCS must be 1")
	}
	simsched.sched = simMix(schedSeed, 1)
	simsched.sel = simMix(auxSeed, 2)
	simsched.mapr = simMix(auxSeed, 3)
	simsched.yieldThr = yieldThr
	simsched.pctGen++
	simsched.sdSeq, simsched.sdCount = 0, 0
	if simsched.pct {
		steps := simsched.pctK[0]
		if steps < 1 {
			steps = 1
		}
		for i := uint32(0); i < simsched.pctDepth; i++ {
			simsched.pctK[i] = 1 + simNext(&simsched.sched)%steps
		}
	}
	simsched.picks, simsched.yields, simsched.yieldSites, simsched.multi = 0, 0, 0, 0
	simsched.hash, simsched.diverge = 0, 0
	simsched.spinSites, simsched.spinNow, simsched.spinSleeps = 0, -1, 0
	simsched.spinLevel, simsched.spinEnd = 0, -1
	simsched.spinSleepers = 0
	simsched.ndec = 0
	simsched.ntrace = 0
	simsched.over = false
	// Drop any preemption request raised against this goroutine before
	// the simulation took over, so that it cannot land inside the run.
	gp := getg()
	gp.preempt = false
	gp.stackguard0 = gp.stack.lo + stackGuard
	simsched.enabled = true
}

// simSetPCT selects PCT-style scheduling for the next simEnable..simDisable
// window (Burckhardt et al., "A Randomized Scheduler with Probabilistic
// Guarantees of Finding Bugs"): every goroutine gets a random priority when it
// is first seen, the runnable goroutine with the highest priority always runs,
// and at depth randomly chosen scheduling points (uniform in [1, steps]) the
// running goroutine drops to the lowest priority. depth 0 switches it off.
//
//go:linkname simSetPCT
func simSetPCT(depth, steps uint32) {
	if depth > 8 {
		depth = 8
	}
	simsched.pctDepth = depth
	simsched.pct = depth > 0
	for i := range simsched.pctK {
		simsched.pctK[i] = uint64(steps) // placeholder; drawn in simEnable
	}
}

// simEnt returns the per-run scheduler record of gp (nil if the table is
// crowded; such a goroutine simply takes no part in priorities/deferrals).
func simEnt(gp *g) *simPCTEntry {
	id := gp.goid
	i := uint32(id*0x9e3779b97f4a7c15>>40) & (simPCTTab - 1)
	for n := 0; n < 64; n++ {
		e := &simPCT[(i+uint32(n))&(simPCTTab-1)]
		if e.gen == simsched.pctGen && e.goid == id {
			return e
		}
		if e.gen != simsched.pctGen {
			e.gen, e.goid, e.prio, e.dfr = simsched.pctGen, id, 0, 0
			return e
		}
	}
	return nil
}

// simPrio returns (assigning it on first sight) the PCT priority of gp.
func simPrio(gp *g) uint32 {
	e := simEnt(gp)
	if e == nil {
		return simsched.pctDepth + 1 + uint32(gp.goid*2654435761)>>2
	}
	if e.prio == 0 {
		e.prio = simsched.pctDepth + 1 + uint32(simNext(&simsched.sched)>>34)
	}
	return e.prio
}

func simSetPrio(gp *g, prio uint32) {
	if e := simEnt(gp); e != nil {
		e.prio = prio
	}
}

// simSetSiteDelay selects site delays for the next simEnable..simDisable
// window: every scheduling point is identified by a hash of the return
// addresses of the innermost frames; a goroutine that reaches a point whose
// hash % K == k is set aside and only resumes when every other goroutine of
// the bubble is blocked or set aside as well ("this code location is slow in
// this run"). It widens, for one run, the race window that starts at that
// location, for every goroutine passing it. K == 0 switches it off.
//
//go:linkname simSetSiteDelay
func simSetSiteDelay(K, k uint32, lifo bool) {
	simsched.sdK, simsched.sdk, simsched.sdLIFO = K, k, lifo
}

// simOthers reports whether another goroutine of a bubble is runnable
// (goroutines outside the bubble do not count: they come and go with what the
// process did before, and are served first by simPick anyway).
func simOthers(pp *p) bool {
	if nx := pp.runnext; nx != 0 && nx.ptr().bubble != nil {
		return true
	}
	h := atomic.Load(&pp.runqhead)
	t := pp.runqtail
	L := uint32(len(pp.runq))
	for i := h; i != t; i++ {
		if pp.runq[i%L].ptr().bubble != nil {
			return true
		}
	}
	if !sched.runq.empty() {
		found := false
		lock(&sched.lock)
		for gq := sched.runq.head.ptr(); gq != nil; gq = gq.schedlink.ptr() {
			if gq.bubble != nil {
				found = true
				break
			}
		}
		unlock(&sched.lock)
		return found
	}
	return false
}

func simSiteHash() uint32 {
	var pcs [6]uintptr
	n := fpTracebackPCs(unsafe.Pointer(getfp()), pcs[:])
	h := uint64(14695981039346656037)
	for i := 0; i < n; i++ {
		h = (h ^ uint64(pcs[i])) * 1099511628211
	}
	h ^= h >> 29
	h *= 0xbf58476d1ce4e5b9
	h ^= h >> 32
	return uint32(h)
}

// simSetPlayback arms scripted-decision playback for the next simEnable..
// simDisable window: decisions are read from p[0:n]; beyond n they are 0.
//
//go:linkname simSetPlayback
func simSetPlayback(p *uint8, n int) {
	if n > simMaxDec {
		n = simMaxDec
	}
	if p == nil || n < 0 {
		simsched.play = false
		simsched.nplay = 0
		return
	}
	src := unsafe.Slice(p, n)
	copy(simsched.dec[:n], src)
	simsched.nplay = uint32(n)
	simsched.play = true
}

// simGetDecisions copies the recorded decisions into p[0:n].
//
//go:linkname simGetDecisions
func simGetDecisions(p *uint8, n int) (total int, overflow bool) {
	total = int(simsched.ndec)
	if p != nil && n > 0 {
		if n > total {
			n = total
		}
		copy(unsafe.Slice(p, n), simsched.dec[:n])
	}
	return total, simsched.over
}

//go:linkname simDisable
func simDisable() (picks, multi, yields, sites, hash, diverge, spins uint64) {
	simsched.enabled = false
	simsched.play = false
	simsched.pct = false
	simsched.sdK = 0
	return simsched.picks, simsched.multi, simsched.yields, simsched.yieldSites, simsched.hash, simsched.diverge, simsched.spinSleeps
}

//go:linkname simIsEnabled
func simIsEnabled() bool { return simsched.enabled }

//go:linkname simDeferrals
func simDeferrals() uint64 { return simsched.sdCount }

// simSpinSleepers reports how many goroutines are inside a sleep injected by
// the spin guard, and the (bubble clock) instant at which the latest of them
// ends. Quiescence oracles must not judge while there is one: such a goroutine
// is runnable work that was merely charged virtual time.
//
// simChargedUntil returns the bubble-clock instant at which the last sleep
// that the spin guard charged to the calling goroutine ended (0: never).
//
//go:linkname simChargedUntil
func simChargedUntil() int64 {
	gp := getg()
	if gp.simGen != simsched.pctGen {
		return 0
	}
	return gp.simChargeEnd
}

//go:linkname simSpinSleepers
func simSpinSleepers() (n int32, end int64) { return simsched.spinSleepers, simsched.spinEnd }

// simDecide returns the next scheduling decision in [0,n). draw is the value
// the seeded stream would produce. In recording mode draw is stored; in
// playback mode the stored value replaces it.
func simDecide(draw uint32, n uint32) uint32 {
	i := simsched.ndec
	if simsched.play {
		var v uint32
		if i < simsched.nplay {
			v = uint32(simsched.dec[i])
		}
		if i < simMaxDec {
			simsched.ndec = i + 1
		}
		if v >= n {
			simsched.diverge++
			v = v % n
		}
		return v
	}
	if i < simMaxDec {
		simsched.dec[i] = uint8(draw)
		simsched.ndec = i + 1
	} else {
		simsched.over = true
	}
	return draw
}

//go:linkname sync_simYield internal/sync.runtime_simYield
func sync_simYield() { simYield() }

//go:linkname sync_simYield2 sync.runtime_simYield
func sync_simYield2() { simYield() }

//go:linkname atomic_simYield sync/atomic.runtime_simYield
func atomic_simYield() { simYield() }

//go:linkname simYield
func simYield() {
	if !simsched.enabled {
		return
	}
	gp := getg()
	mp := gp.m
	if gp.bubble == nil || mp.curg != gp || mp.locks != 0 || mp.mallocing != 0 || mp.preemptoff != "" || mp.p.ptr().status != _Prunning {
		return
	}
	simsched.yieldSites++
	if simsched.traceOn && simsched.ntrace < simTraceMax {
		var pcs [4]uintptr
		callers(2, pcs[:])
		simTrace[simsched.ntrace] = pcs
		simsched.ntrace++
	}
	// Virtual time only moves when every goroutine of the bubble is blocked, so
	// a goroutine that busy-retries while waiting for something that needs
	// time to pass (e.g. bytes in flight on the simulated network) would spin
	// forever. Executing code costs time on a real machine: after simSpinLimit
	// scheduling points at one virtual instant the current goroutine sleeps for
	// a (doubling) virtual duration. Normal runs never get near the limit.
	now := gp.bubble.now
	if gp.simGen != simsched.pctGen {
		gp.simChargeEnd = 0
	}
	if gp.simNow != now || gp.simGen != simsched.pctGen {
		gp.simNow, gp.simGen, gp.simSites = now, simsched.pctGen, 0
	}
	gp.simSites++
	if now != simsched.spinNow {
		simsched.spinNow = now
		simsched.spinSites = 0
	} else {
		simsched.spinSites++
		// Charge the goroutine that is actually spinning: the one that passed
		// at least a quarter of the scheduling points of this instant. A
		// goroutine that merely happens to run at a busy instant (an API call
		// returning while byte-at-a-time I/O is going on) is let through; if
		// nobody dominates, whoever is running when the count reaches four
		// times the limit pays.
		if simsched.spinSites > simSpinLimit && (gp.simSites >= simSpinLimit/4 || simsched.spinSites > 4*simSpinLimit) {
			// a lone spinner (nine tenths of the instant's scheduling points are
			// its own) is waiting for time to pass: its sleeps escalate. Several
			// goroutines sharing a busy instant are doing work (byte-at-a-time
			// I/O): that costs a microsecond per round and never more.
			lone := uint64(gp.simSites) >= simsched.spinSites/10*9
			simsched.spinSites = 0
			gp.simSites = 0
			// escalate only while no virtual time has passed since the previous
			// injected sleep ended (a genuine spin); isolated bursts of work at
			// one instant just get a 1 microsecond sleep
			if lone && now <= simsched.spinEnd {
				simsched.spinLevel++
			} else {
				simsched.spinLevel = 0
			}
			simsched.spinSleeps++
			if simsched.spinSleeps > 100000 {
				print("SIMSPIN: runaway spin in virtual time, giving up\n")
				exit(4)
			}
			lv := simsched.spinLevel
			if lv > 8 {
				lv = 8 // 1 us << 24: about 17 virtual seconds per sleep
			}
			d := int64(1000) << (3 * lv)
			// (Capping the sleep at the next timer of the bubble was tried and
			// dropped: harness goroutines that poll with short sleeps keep the
			// next timer microseconds away, the escalation never takes effect
			// and a spin towards a deadline minutes away costs hours of CPU.
			// Instead the goroutine remembers until when it was charged, and
			// deadline oracles excuse exactly that.)
			if now > 1<<62 {
				// the bubble's clock is about to overflow (decades-long jumps
				// piled up): a sleep would arm a timer in the past
				d = 0
			}
			gp.simChargeEnd = now + d
			simsched.spinEnd = now + d
			if d > 0 {
				simsched.spinSleepers++
				timeSleep(d)
				simsched.spinSleepers--
			}
		}
	}
	var d uint32
	if simsched.play {
		d = simDecide(0, 2)
	} else {
		others := simOthers(mp.p.ptr())
		if simsched.sdK != 0 && others && simSiteHash()%simsched.sdK == simsched.sdk {
			if e := simEnt(gp); e != nil {
				simsched.sdSeq++
				simsched.sdCount++
				e.dfr = simsched.sdSeq
				d = 1
			}
		}
		if simsched.pct {
			for i := uint32(0); i < simsched.pctDepth; i++ {
				if simsched.yieldSites == simsched.pctK[i] {
					simSetPrio(gp, simsched.pctDepth-i)
				}
			}
			if others {
				d = 1
			}
		} else if d == 0 && simsched.yieldThr != 0 {
			if uint32(simNext(&simsched.sched)>>48) >= 65536-simsched.yieldThr {
				d = 1
			}
		}
		simDecide(d, 2)
	}
	if d != 0 {
		simsched.yields++
		mcall(gosched_m)
	}
}

// simPick picks the next goroutine for pp. Non-bubble goroutines are served
// first in FIFO order without consuming randomness; among bubble goroutines
// the choice is drawn from the seeded stream (or the playback buffer).
func simPick(pp *p) *g {
	if !sched.runq.empty() {
		lock(&sched.lock)
		for sched.runq.size > 0 && pp.runqtail-atomic.Load(&pp.runqhead) < uint32(len(pp.runq))-1 {
			gp := sched.runq.pop()
			pp.runq[pp.runqtail%uint32(len(pp.runq))].set(gp)
			atomic.StoreRel(&pp.runqtail, pp.runqtail+1)
		}
		unlock(&sched.lock)
	}
	h := atomic.Load(&pp.runqhead)
	t := pp.runqtail
	n := t - h
	L := uint32(len(pp.runq))
	next := pp.runnext
	// non-bubble first
	if next != 0 && next.ptr().bubble == nil {
		pp.runnext = 0
		return next.ptr()
	}
	for i := uint32(0); i < n; i++ {
		gp := pp.runq[(h+i)%L].ptr()
		if gp.bubble == nil {
			for j := h + i; j != h; j-- {
				pp.runq[j%L] = pp.runq[(j-1)%L]
			}
			atomic.StoreRel(&pp.runqhead, h+1)
			return gp
		}
	}
	// Canonical candidate order: fold runnext into the ring and sort the
	// ring by goid, so that the k-th candidate does not depend on queue
	// perturbations caused by non-bubble goroutines.
	// (only when the ring has room: runqput may have filled all L slots, and
	// writing one more would overwrite the head and duplicate a goroutine)
	if next != 0 && n < L {
		pp.runnext = 0
		pp.runq[t%L].set(next.ptr())
		t++
		atomic.StoreRel(&pp.runqtail, t)
		n++
	}
	if n == 0 {
		return nil
	}
	for i := uint32(1); i < n; i++ {
		x := pp.runq[(h+i)%L]
		j := i
		for j > 0 && pp.runq[(h+j-1)%L].ptr().goid > x.ptr().goid {
			pp.runq[(h+j)%L] = pp.runq[(h+j-1)%L]
			j--
		}
		pp.runq[(h+j)%L] = x
	}
	simsched.picks++
	k := uint32(0)
	if n > 1 {
		simsched.multi++
		nn := n
		if nn > 255 {
			nn = 255
		}
		switch {
		case simsched.play:
			k = simDecide(0, nn)
		case simsched.pct || simsched.sdK != 0:
			// candidates: the goroutines that are not set aside; if there is
			// none, one of those set aside resumes
			var m, last, lastSeq uint32
			for i := uint32(0); i < nn; i++ {
				e := simEnt(pp.runq[(h+i)%L].ptr())
				if e == nil || e.dfr == 0 {
					m++
				} else if e.dfr > lastSeq {
					last, lastSeq = i, e.dfr
				}
			}
			all := m == 0
			if all {
				m = nn
			}
			if simsched.pct {
				best := uint32(0)
				for i := uint32(0); i < nn; i++ {
					gq := pp.runq[(h+i)%L].ptr()
					if e := simEnt(gq); !all && e != nil && e.dfr != 0 {
						continue
					}
					if pr := simPrio(gq); pr > best {
						best, k = pr, i
					}
				}
			} else if all && simsched.sdLIFO {
				k = last
			} else {
				j := simRandn(&simsched.sched, m)
				for i := uint32(0); i < nn; i++ {
					e := simEnt(pp.runq[(h+i)%L].ptr())
					if !all && e != nil && e.dfr != 0 {
						continue
					}
					if j == 0 {
						k = i
						break
					}
					j--
				}
			}
			simDecide(k, nn)
		default:
			k = simDecide(simRandn(&simsched.sched, nn), nn)
		}
		simsched.hash = (simsched.hash ^ (uint64(n)<<8 | uint64(k))) * 1099511628211
	}
	gp := pp.runq[(h+k)%L].ptr()
	if simsched.sdK != 0 {
		if e := simEnt(gp); e != nil {
			e.dfr = 0
		}
	}
	for j := h + k; j != h; j-- {
		pp.runq[j%L] = pp.runq[(j-1)%L]
	}
	atomic.StoreRel(&pp.runqhead, h+1)
	return gp
}
'''
emit("runtime/simsched.go", SIMSCHED)

# --- sync/atomic typed methods + function wrappers
_p = os.path.join(GR, "src", "sync/atomic/type.go")
_t = open(_p).read()


def _inj(m):
    return m.group(1) + "{ runtime_simYield(); " + m.group(2)


_t2, n1 = re.subn(r'(?m)^(func \(x \*\w+(?:\[T\])?\) \w+\([^)]*\)[^{\n]*)\{ (.*\})$', _inj, _t)
_t2, n2 = re.subn(r'(?m)^(func \(x \*\w+(?:\[T\])?\) \w+\([^)]*\)[^{\n]*\{)\n',
                  lambda m: m.group(1) + "\n\truntime_simYield()\n", _t2)
if n1 < 30 or n2 < 3:
    die("sync/atomic/type.go: unexpected method counts %d %d" % (n1, n2))
_t2 += "\n//go:linkname runtime_simYield\nfunc runtime_simYield()\n"
emit("sync/atomic/type.go", _t2)
_w = ["package atomic\n\n// Wrappers used by the go/ast rewrite of function-style atomics.\n"]
for ty, go in [("Int32", "int32"), ("Int64", "int64"), ("Uint32", "uint32"), ("Uint64", "uint64"), ("Uintptr", "uintptr")]:
    _w.append(f"func SimAdd{ty}(addr *{go}, delta {go}) {go} {{ runtime_simYield(); return Add{ty}(addr, delta) }}\n")
    _w.append(f"func SimLoad{ty}(addr *{go}) {go} {{ runtime_simYield(); return Load{ty}(addr) }}\n")
    _w.append(f"func SimStore{ty}(addr *{go}, val {go}) {{ runtime_simYield(); Store{ty}(addr, val) }}\n")
    _w.append(f"func SimSwap{ty}(addr *{go}, new {go}) {go} {{ runtime_simYield(); return Swap{ty}(addr, new) }}\n")
    _w.append(f"func SimCompareAndSwap{ty}(addr *{go}, old, new {go}) bool {{ runtime_simYield(); return CompareAndSwap{ty}(addr, old, new) }}\n")
emit("sync/atomic/simwrap.go", "".join(_w))
patch("math/rand/v2/rand.go", [
    ("func (runtimeSource) Uint64() uint64 {\n	return runtime_rand()",
     "func (runtimeSource) Uint64() uint64 {\n	if v, ok := runtime_simRand(); ok {\n		return v\n	}\n	return runtime_rand()"),
], append="\n//go:linkname runtime_simRand runtime.simRand\nfunc runtime_simRand() (uint64, bool)\n")

new = json.dumps({"Replace": repl}, indent=1, sort_keys=True)
op = os.path.join(OUT, "overlay.json")
if not os.path.exists(op) or open(op).read() != new:
    open(op, "w").write(new)
print("mkpatch ok: %d files" % len(repl))
