package main

func init() {
	regWorld(&World{Name: "wl", Pkg: "google.golang.org/grpc/internal/zzverif/wl", Mounts: map[string]string{"internal/zzverif/wl": "sim/wl"},
		Rewrite: []string{"balancer/endpointsharding/endpointsharding.go"}})
	selftestProps = append(selftestProps, "C33")
	regProp("C33", wl("internal/balancer/gracefulswitch.Balancer (all of gracefulswitch.go, config.go)").doc(
		"TODO",
		"TODO",
		"seeded schedule search over the real gracefulswitch.Balancer with scripted stub children and a recording ClientConn; linearizability check against a reference model of the swap rule"))
	regProp("C34", wl("balancer/pickfirst (policy, happy-eyeballs timer, pickers)").doc(
		"TODO",
		"TODO",
		"seeded schedule search over the real pick_first with scripted subchannel state machines and a recording ClientConn; reference model of the connection order, READY and sticky-TF rules"))
}

func wl(real ...string) *Prop {
	return &Prop{World: "wl", QuickRuns: 60000, QuickSecs: 25, ThoroughRuns: 2000000, ThoroughSecs: 420, Batch: 300, RunTimeoutS: 30,
		Real: real, Stub: []string{"balancer.ClientConn / SubConn (recording fake)", "the channel: harness goroutines calling into the policy, serialised", "clock (synctest)", "goroutine scheduler (detrt)"}}
}
