package main

import (
	"bytes"
	"encoding/json"
	"fmt"
	"os"
	"path/filepath"
	"sort"
	"strconv"
	"strings"
	"sync"
	"time"
)

var lastStderr string

type replayDoc struct {
	Property string          `json:"property"`
	World    string          `json:"world"`
	Tier     string          `json:"tier"`
	Seed     uint64          `json:"seed"`
	Expect   Violation       `json:"expect"`
	Scenario json.RawMessage `json:"scenario,omitempty"`
	Note     string          `json:"note,omitempty"`
	Minimise map[string]any  `json:"minimisation,omitempty"`
}

func decodeNum(raw []byte) (any, error) {
	d := json.NewDecoder(bytes.NewReader(raw))
	d.UseNumber()
	var v any
	err := d.Decode(&v)
	return v, err
}

// tryScenario runs one scenario in a fresh worker and reports whether a
// violation of the wanted oracle class occurred.
func tryScenario(bin, id string, p *Prop, raw json.RawMessage, wantOracle string, wantDec, wantLog bool) (bool, *Reply) {
	res := runWorker(bin, &Request{Prop: id, Mode: "replay", Scenario: raw, WantDec: wantDec, WantLog: wantLog, WantSc: false}, time.Duration(p.RunTimeoutS+60)*time.Second)
	lastStderr = res.stderr
	if len(res.replies) == 0 {
		if wantOracle == "process_panic" && strings.Contains(res.stderr, "panic:") && grpcFrame(res.stderr) {
			return true, &Reply{Outcome: &Outcome{Panic: tail(res.stderr, 8000), Viol: []Violation{{Oracle: "process_panic", Msg: panicLine(res.stderr)}}}}
		}
		return false, nil
	}
	r := res.replies[0]
	if r.Invalid != "" || r.Outcome == nil {
		return false, &r
	}
	o := r.Outcome
	if o.Deadlock {
		o.Viol = append(o.Viol, Violation{Oracle: "stuck_goroutines", Msg: "goroutines still blocked when the run ended (after teardown)"})
	}
	if o.Panic != "" && !o.Deadlock {
		o.Viol = append(o.Viol, Violation{Oracle: "panic", Msg: firstLine(o.Panic)})
	}
	for i, v := range o.Viol {
		if v.Oracle == wantOracle {
			o.Viol[0], o.Viol[i] = o.Viol[i], o.Viol[0]
			return true, &r
		}
	}
	return false, &r
}

// shrink candidates over a generic JSON tree ---------------------------------

type jpath []any // string keys and int indexes

func getAt(v any, p jpath) any {
	for _, k := range p {
		switch kk := k.(type) {
		case string:
			v = v.(map[string]any)[kk]
		case int:
			v = v.([]any)[kk]
		}
	}
	return v
}

func cloneJSON(v any) any {
	switch t := v.(type) {
	case map[string]any:
		m := make(map[string]any, len(t))
		for k, x := range t {
			m[k] = cloneJSON(x)
		}
		return m
	case []any:
		a := make([]any, len(t))
		for i, x := range t {
			a[i] = cloneJSON(x)
		}
		return a
	}
	return v
}

func setAt(root any, p jpath, nv any) any {
	if len(p) == 0 {
		return nv
	}
	root = cloneJSON(root)
	cur := root
	for i, k := range p {
		last := i == len(p)-1
		switch kk := k.(type) {
		case string:
			m := cur.(map[string]any)
			if last {
				m[kk] = nv
			} else {
				cur = m[kk]
			}
		case int:
			a := cur.([]any)
			if last {
				a[kk] = nv
			} else {
				cur = a[kk]
			}
		}
	}
	return root
}

type cand struct {
	desc string
	doc  any
}

func protectedKey(k string) bool {
	return k == "sched" || strings.HasSuffix(k, "_seed") || strings.HasSuffix(k, "_id") || k == "id"
}

func walk(v any, p jpath, f func(p jpath, v any)) {
	f(p, v)
	switch t := v.(type) {
	case map[string]any:
		keys := make([]string, 0, len(t))
		for k := range t {
			keys = append(keys, k)
		}
		sort.Strings(keys)
		for _, k := range keys {
			if protectedKey(k) {
				continue
			}
			walk(t[k], append(append(jpath{}, p...), k), f)
		}
	case []any:
		for i, x := range t {
			walk(x, append(append(jpath{}, p...), i), f)
		}
	}
}

func candidates(doc any) []cand {
	var out []cand
	// 1. drop array chunks, biggest first
	walk(doc, nil, func(p jpath, v any) {
		a, ok := v.([]any)
		if !ok || len(a) == 0 {
			return
		}
		for sz := len(a); sz >= 1; sz /= 2 {
			for st := 0; st+sz <= len(a); st += sz {
				na := append(append([]any{}, a[:st]...), a[st+sz:]...)
				out = append(out, cand{fmt.Sprintf("drop %v[%d:%d]", p, st, st+sz), setAt(doc, p, na)})
			}
			if sz == 1 {
				break
			}
		}
	})
	// 2. shrink numbers and booleans
	walk(doc, nil, func(p jpath, v any) {
		switch t := v.(type) {
		case json.Number:
			if i, err := strconv.ParseInt(string(t), 10, 64); err == nil && i > 0 {
				for _, nv := range []int64{0, 1, i / 2, i - 1} {
					if nv >= 0 && nv < i {
						out = append(out, cand{fmt.Sprintf("num %v %d->%d", p, i, nv), setAt(doc, p, json.Number(strconv.FormatInt(nv, 10)))})
					}
				}
			}
		case bool:
			if t {
				out = append(out, cand{fmt.Sprintf("bool %v->false", p), setAt(doc, p, false)})
			}
		}
	})
	return out
}

func docSize(doc any) int {
	b, _ := json.Marshal(doc)
	return len(b)
}

func confirmAndMinimise(id string, p *Prop, bin, tier string, bad *Reply) (string, bool) {
	want := bad.Outcome.Viol[0]
	os.MkdirAll(replaysDir(), 0o755)
	path := filepath.Join(replaysDir(), fmt.Sprintf("%s-%d.json", id, bad.Seed))
	doc := replayDoc{Property: id, World: p.World, Tier: tier, Seed: bad.Seed, Expect: want}
	if len(bad.Scenario) == 0 {
		// process crash: no scenario came back; regenerate it by seed.
		res := runWorker(bin, &Request{Prop: id, Mode: "seeds", Tier: tier, Seeds: []uint64{bad.Seed}}, time.Duration(p.RunTimeoutS+60)*time.Second)
		if !(strings.Contains(res.stderr, "panic:") && grpcFrame(res.stderr)) {
			return "", false
		}
		doc.Note = "process crash; replay regenerates the scenario from the seed\n" + tail(res.stderr, 6000)
		b, _ := json.MarshalIndent(doc, "", " ")
		os.WriteFile(path, b, 0o644)
		return path, true
	}
	ok, _ := tryScenario(bin, id, p, bad.Scenario, want.Oracle, false, false)
	if !ok {
		return "", false
	}
	limit := 45 * time.Second
	if tier == "thorough" {
		limit = 4 * time.Minute
	}
	if v := os.Getenv("SIM_MINIMISE_S"); v != "" {
		var s int
		fmt.Sscan(v, &s)
		limit = time.Duration(s) * time.Second
	}
	deadline := time.Now().Add(limit)
	cur, err := decodeNum(bad.Scenario)
	if err != nil {
		return "", false
	}
	startSize := docSize(cur)
	attempts, accepted := 0, 0
	// phase 1: script / fault plan / knobs, schedule still derived from the seed
	for time.Now().Before(deadline) {
		cs := candidates(cur)
		progressed := false
		for i := 0; i < len(cs) && time.Now().Before(deadline); i += 16 {
			j := i + 16
			if j > len(cs) {
				j = len(cs)
			}
			okv := make([]bool, j-i)
			var wg sync.WaitGroup
			for k := i; k < j; k++ {
				wg.Add(1)
				go func(k int) {
					defer wg.Done()
					raw, _ := json.Marshal(cs[k].doc)
					okv[k-i], _ = tryScenario(bin, id, p, raw, want.Oracle, false, false)
				}(k)
			}
			wg.Wait()
			attempts += j - i
			for k := range okv {
				if okv[k] {
					cur = cs[i+k].doc
					accepted++
					progressed = true
					break
				}
			}
			if progressed {
				break
			}
		}
		if !progressed {
			break
		}
	}
	raw, _ := json.Marshal(cur)
	// phase 2: freeze the decision vector and zero chunks of it
	decInfo := map[string]any{}
	if ok, r := tryScenario(bin, id, p, raw, want.Oracle, true, false); ok && r != nil && r.Outcome.DecRLE != "" {
		vec, err := decodeRLE(r.Outcome.DecRLE)
		if err == nil {
			withVec := func(v []byte) json.RawMessage {
				d := cloneJSON(cur).(map[string]any)
				sched, _ := d["sched"].(map[string]any)
				if sched == nil {
					return nil
				}
				sched["decisions"] = encodeRLE(v)
				b, _ := json.Marshal(d)
				return b
			}
			if rv := withVec(vec); rv != nil {
				if ok, _ := tryScenario(bin, id, p, rv, want.Oracle, false, false); ok {
					nz0 := nonZero(vec)
					for chunk := len(vec) / 2; chunk >= 1 && time.Now().Before(deadline); chunk /= 2 {
						type job struct{ st int }
						var jobs []job
						for st := 0; st < len(vec); st += chunk {
							en := st + chunk
							if en > len(vec) {
								en = len(vec)
							}
							if nonZero(vec[st:en]) > 0 {
								jobs = append(jobs, job{st})
							}
						}
						for i := 0; i < len(jobs) && time.Now().Before(deadline); i += 16 {
							j := i + 16
							if j > len(jobs) {
								j = len(jobs)
							}
							okv := make([]bool, j-i)
							var wg sync.WaitGroup
							for k := i; k < j; k++ {
								wg.Add(1)
								go func(k int) {
									defer wg.Done()
									v2 := append([]byte{}, vec...)
									en := jobs[k].st + chunk
									if en > len(v2) {
										en = len(v2)
									}
									for x := jobs[k].st; x < en; x++ {
										v2[x] = 0
									}
									okv[k-i], _ = tryScenario(bin, id, p, withVec(v2), want.Oracle, false, false)
								}(k)
							}
							wg.Wait()
							attempts += j - i
							// chunks are disjoint but not independent: re-verify the union
							v2 := append([]byte{}, vec...)
							any := false
							for k := range okv {
								if okv[k] {
									any = true
									en := jobs[i+k].st + chunk
									if en > len(v2) {
										en = len(v2)
									}
									for x := jobs[i+k].st; x < en; x++ {
										v2[x] = 0
									}
								}
							}
							if any {
								if ok, _ := tryScenario(bin, id, p, withVec(v2), want.Oracle, false, false); ok {
									vec = v2
									accepted++
								} else {
									for k := range okv {
										if okv[k] {
											en := jobs[i+k].st + chunk
											if en > len(vec) {
												en = len(vec)
											}
											for x := jobs[i+k].st; x < en; x++ {
												vec[x] = 0
											}
											accepted++
											break
										}
									}
								}
							}
						}
					}
					// trailing zeros are implicit
					n := len(vec)
					for n > 0 && vec[n-1] == 0 {
						n--
					}
					vec = vec[:n]
					if rv := withVec(vec); rv != nil {
						if ok, _ := tryScenario(bin, id, p, rv, want.Oracle, false, false); ok {
							raw = rv
							decInfo["decisions_total"] = len(vec)
							decInfo["nonzero_before"] = nz0
							decInfo["nonzero_after"] = nonZero(vec)
						}
					}
				}
			}
		}
	}
	// final confirmation in a fresh process
	ok, r := tryScenario(bin, id, p, raw, want.Oracle, false, false)
	if !ok {
		raw = bad.Scenario
		ok, r = tryScenario(bin, id, p, raw, want.Oracle, false, false)
		if !ok {
			return "", false
		}
	}
	doc.Scenario = raw
	doc.Expect = r.Outcome.Viol[0]
	doc.Minimise = map[string]any{"attempts": attempts, "accepted": accepted, "bytes_before": startSize, "bytes_after": len(raw), "schedule": decInfo}
	b, _ := json.MarshalIndent(doc, "", " ")
	if err := os.WriteFile(path, b, 0o644); err != nil {
		return "", false
	}
	return path, true
}

func nonZero(b []byte) int {
	n := 0
	for _, x := range b {
		if x != 0 {
			n++
		}
	}
	return n
}

func encodeRLE(b []byte) string {
	if len(b) == 0 {
		return "-"
	}
	var sb strings.Builder
	for i := 0; i < len(b); {
		j := i
		for j < len(b) && b[j] == b[i] {
			j++
		}
		if sb.Len() > 0 {
			sb.WriteByte(',')
		}
		if j-i == 1 {
			fmt.Fprintf(&sb, "%d", b[i])
		} else {
			fmt.Fprintf(&sb, "%d*%d", b[i], j-i)
		}
		i = j
	}
	return sb.String()
}

func decodeRLE(s string) ([]byte, error) {
	out := []byte{}
	if s == "" || s == "-" {
		return out, nil
	}
	for _, part := range strings.Split(s, ",") {
		var v, n int
		if strings.Contains(part, "*") {
			if _, err := fmt.Sscanf(part, "%d*%d", &v, &n); err != nil {
				return nil, err
			}
		} else {
			if _, err := fmt.Sscanf(part, "%d", &v); err != nil {
				return nil, err
			}
			n = 1
		}
		for i := 0; i < n; i++ {
			out = append(out, byte(v))
		}
	}
	return out, nil
}

// replayFile re-runs a replay file in a fresh worker built from the current tree.
func replayFile(path string) int {
	b, err := os.ReadFile(path)
	if err != nil {
		die2("%v", err)
	}
	var doc replayDoc
	if err := json.Unmarshal(b, &doc); err != nil {
		die2("bad replay file: %v", err)
	}
	p := props[doc.Property]
	if p == nil {
		die2("unknown property %s", doc.Property)
	}
	bin, err := buildWorld(worlds[p.World])
	if err != nil {
		die2("build: %v", err)
	}
	if len(doc.Scenario) == 0 {
		res := runWorker(bin, &Request{Prop: doc.Property, Mode: "seeds", Tier: doc.Tier, Seeds: []uint64{doc.Seed}, WantLog: true}, time.Duration(p.RunTimeoutS+60)*time.Second)
		if strings.Contains(res.stderr, "panic:") {
			fmt.Println(tail(res.stderr, 6000))
			fmt.Printf("REPRODUCED oracle=process_panic\nVIOLATION property=%s replay=%s\n", doc.Property, path)
			return 1
		}
		fmt.Println("NOT REPRODUCED")
		return 0
	}
	ok, r := tryScenario(bin, doc.Property, p, doc.Scenario, doc.Expect.Oracle, false, true)
	if r != nil && r.Outcome != nil {
		lg := r.Outcome.Log
		if len(lg) > 400 {
			lg = lg[len(lg)-400:]
		}
		for _, l := range lg {
			fmt.Println(l)
		}
		fmt.Printf("stats: %+v sim_ns=%d events=%d log_hash=%x\n", r.Outcome.Stats, r.Outcome.SimNs, r.Outcome.Events, r.Outcome.LogHash)
		for _, v := range r.Outcome.Viol {
			fmt.Printf("violation oracle=%s seq=%d t=%dns: %s\n", v.Oracle, v.Seq, v.SimNs, v.Msg)
		}
		if r.Outcome.Panic != "" {
			fmt.Println(r.Outcome.Panic)
		}
	}
	if os.Getenv("SIM_GRPCLOG") != "" {
		fmt.Println(lastStderr)
	}
	if ok {
		same := r.Outcome.Viol[0].Seq == doc.Expect.Seq && r.Outcome.Viol[0].Msg == doc.Expect.Msg
		fmt.Printf("REPRODUCED oracle=%s exact=%v\nVIOLATION property=%s replay=%s\n", doc.Expect.Oracle, same, doc.Property, path)
		return 1
	}
	fmt.Println("NOT REPRODUCED (the expected oracle did not fail on the current tree)")
	return 0
}

// selftestDeterminism runs the same seeds in several processes and demands
// identical outcomes (event-log hash, schedule hash, counters).
func selftestDeterminism(args []string) int {
	ids := args
	if len(ids) == 0 {
		ids = selftestProps
	}
	procs, nseeds := 6, 12
	if v := os.Getenv("SIM_ST_PROCS"); v != "" {
		fmt.Sscan(v, &procs)
	}
	if v := os.Getenv("SIM_ST_SEEDS"); v != "" {
		fmt.Sscan(v, &nseeds)
	}
	bad := 0
	for _, id := range ids {
		p := props[id]
		if p == nil {
			die2("unknown property %s", id)
		}
		bin, err := buildWorld(worlds[p.World])
		if err != nil {
			die2("build: %v", err)
		}
		seeds := make([]uint64, nseeds)
		for i := range seeds {
			seeds[i] = splitmix(777, strHash(id), uint64(i))
		}
		sigs := make([][]string, procs)
		var wg sync.WaitGroup
		for k := 0; k < procs; k++ {
			wg.Add(1)
			go func(k int) {
				defer wg.Done()
				// odd processes run the seeds one per process (isolation), even ones as a batch
				var reps []Reply
				if k%2 == 0 {
					res := runWorker(bin, &Request{Prop: id, Mode: "seeds", Tier: "quick", Seeds: seeds}, 10*time.Minute)
					reps = res.replies
					for len(reps) < len(seeds) && res.exit == 3 {
						res = runWorker(bin, &Request{Prop: id, Mode: "seeds", Tier: "quick", Seeds: seeds[len(reps):]}, 10*time.Minute)
						if len(res.replies) == 0 {
							break
						}
						reps = append(reps, res.replies...)
					}
				} else {
					for _, s := range seeds {
						res := runWorker(bin, &Request{Prop: id, Mode: "seeds", Tier: "quick", Seeds: []uint64{s}}, 5*time.Minute)
						reps = append(reps, res.replies...)
					}
				}
				for _, r := range reps {
					if r.Outcome == nil {
						sigs[k] = append(sigs[k], "invalid")
						continue
					}
					o := r.Outcome
					sigs[k] = append(sigs[k], fmt.Sprintf("seed=%d log=%x sched=%x picks=%d multi=%d yields=%d sites=%d ev=%d sim=%d viol=%d", r.Seed, o.LogHash, o.Stats.SchedHash, o.Stats.Picks, o.Stats.Multi, o.Stats.Yields, o.Stats.Sites, o.Events, o.SimNs, len(o.Viol)))
				}
			}(k)
		}
		wg.Wait()
		distinctLogs := map[string]bool{}
		for i := range sigs[0] {
			distinctLogs[sigs[0][i]] = true
		}
		for k := 1; k < procs; k++ {
			if len(sigs[k]) != len(sigs[0]) {
				fmt.Printf("DIVERGENCE %s: process %d returned %d runs, process 0 %d\n", id, k, len(sigs[k]), len(sigs[0]))
				bad++
				continue
			}
			for i := range sigs[k] {
				if sigs[k][i] != sigs[0][i] {
					fmt.Printf("DIVERGENCE %s:\n  p0: %s\n  p%d: %s\n", id, sigs[0][i], k, sigs[k][i])
					bad++
				}
			}
		}
		fmt.Printf("selftest %s: %d processes x %d seeds, %d distinct outcomes, divergences so far %d\n", id, procs, len(sigs[0]), len(distinctLogs), bad)
	}
	if bad > 0 {
		return 2
	}
	return 0
}
