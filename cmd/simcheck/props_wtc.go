package main

func init() {
	regWorld(&World{Name: "wtc", Pkg: "google.golang.org/grpc/internal/zzverif/wtc", Mounts: map[string]string{"internal/zzverif/wtc": "sim/wtc"}})
	selftestProps = append(selftestProps, "C03")
	regProp("C01wt", wtcProp().doc(
		"A real grpc.ClientConn sends over simnet to a scripted HTTP/2 server (stub) that uses every freedom of RFC 9113: SETTINGS_INITIAL_WINDOW_SIZE from 0/1 byte to 1 MiB, raised and lowered mid-stream (also below the bytes outstanding), stream and connection WINDOW_UPDATEs of 1..2^20 bytes as echoes, chunks, 1-byte bursts, only at exhaustion, before the stream ever waits and for closed streams, SETTINGS_MAX_FRAME_SIZE/HEADER_TABLE_SIZE changes, delayed SETTINGS acks, RST_STREAM and trailers in the middle of a message, reader and writer stalls. The shared wire-tap ledger (independent decoder; grants count from delivery, emissions from write; a SETTINGS change from the client's ACK) flags DATA beyond the connection or stream window, DATA frames > 16 KiB and header fragments > the peer's MAX_FRAME_SIZE.",
		"The server is a scripted stub (conforming-adversarial mode). Part of C01; the real-server half is C01we.",
		"wire-tap window ledger against a scripted adversarial HTTP/2 peer"))
	regProp("C02wt", wtcProp().doc(
		"Same scripted peer and traffic as C01wt with attributable payloads: the tap re-assembles every client stream into gRPC messages and compares each byte, length and count with what the application submitted; END_STREAM exactly once and last, nothing after the client's own END_STREAM/RST_STREAM; under peer RST/trailers mid-message, cancellation, deadline, scripted connection close and network faults a stream may stop at any prefix but never skip, repeat or reorder. The peer verifies the payload pattern of what it receives as well.",
		"The server is a scripted stub. Part of C02; the real-server half is C02we.",
		"wire-tap byte ledger against a scripted adversarial HTTP/2 peer"))
	regProp("C03", wtcProp().doc(
		"Liveness at quiescent points (every goroutine durably blocked, nothing in flight on simnet, the peer's writer queue empty, the peer not refusing to read) that the scenario requests after each adversarial grant: for every open client stream, bytes queued by the application (SendMsg returned nil) minus bytes on the wire > 0 while the ledger's stream window and connection window are both positive is a violation; generator cases include updates that arrive before the stream ever waits, SETTINGS_INITIAL_WINDOW_SIZE raised while several streams wait, lowered below the outstanding bytes, streams cancelled/reset while waiting. Round robin is judged only in quiet-peer phases made on purpose: several streams hold large pending messages, the peer grants ample credit, sends a fence PING and stays silent; once the client's PING ACK is on the wire the writer provably knows every grant, and from then on a stream that has sent DATA and still has message remainder and window must not send again before the streams that were queued before it.",
		"The server is a scripted stub. A SendMsg that is still blocked at quiescence although all earlier bytes of its stream are on the wire is flagged too (write-quota clause of C17 seen from outside). Fairness outside quiet-peer phases is not asserted (S5).",
		"quiescence liveness oracle over the window ledger + fenced quiet-phase round-robin model"))
	regProp("C13", wtcProp().doc(
		"Bursts of NewStream from up to 16 goroutines against a scripted server whose MAX_CONCURRENT_STREAMS starts at 0..5 or unlimited and is lowered (also to 0) and raised again by SETTINGS while RPCs wait; streams complete in all ways (trailers, END_STREAM without trailers, RST by either side, cancel, deadline, GOAWAY, connection close). Wire ledger: for every HEADERS opening a stream, the streams open from the client's point of view (server END_STREAM/RST count from delivery, client RST/END_STREAM from write) never exceed the limit the client has acknowledged (between delivery and ACK of a SETTINGS the larger value); ids odd and strictly increasing. At quiescent points: no RPC is blocked in NewStream on a READY connection without GOAWAY while open < limit (this is also the stream-quota clause of C17); waiting RPCs end by admission, deadline, GOAWAY or close.",
		"The server is a scripted stub. Covers the streamsQuotaAvailable clause of C17.",
		"wire-tap concurrent-streams ledger + quiescence oracle for stream-quota waiters"))
	regProp("C14wt", wtcProp().doc(
		"The scripted server sends one or two GOAWAY frames with arbitrary last-stream-ids (highest seen, above it, 2^31-1, 0, small odd ids below streams in flight, even ids, a second one lower/equal/larger) while RPCs are in flight and new ones race with it; the listener keeps accepting so transparent retries land on a new connection. Oracle: after the first quiescent point following the delivery of a GOAWAY no new stream id appears on that connection; an attempt on a stream above the GOAWAY id is either followed by a further attempt of the same RPC (transparent retry) or the RPC ends UNAVAILABLE (or by its own deadline/cancel) - never with another status unless the peer had really answered it; an RPC whose stream is at or below the id ends with exactly the status the peer scripted for it; a second GOAWAY with a larger id makes the client close the connection.",
		"The server is a scripted stub that ignores streams above the id it announced, as a conforming server does. Client half of C14; exactly-once execution on a real server is C14we.",
		"GOAWAY race exploration with per-attempt wire attribution (x-sim-rpc) and quiescence-anchored wire rule"))
}

func wtcProp(real ...string) *Prop {
	return &Prop{World: "wtc", QuickRuns: 3000, QuickSecs: 35, ThoroughRuns: 200000, ThoroughSecs: 600, Batch: 8, RunTimeoutS: 120,
		Real: append([]string{"grpc.ClientConn, pick_first, resolver passthrough, http2Client (reader, keepalive, stream quota, GOAWAY handling), loopy writer, controlbuf, flow control, stream.go (retry, message framing)"}, real...),
		Stub: []string{"HTTP/2 server = scripted peer (x/net/http2 Framer + hpack, harness goroutines)", "network (simnet)", "clock (synctest)", "goroutine scheduler (detrt)", "application = scripted op lists over a raw bytes codec"}}
}
