package main

// Properties of the primitives world (wu) owned by "wuprims": C31 C50 C54 C57.

func wuP(real ...string) *Prop {
	p := wu(real...)
	p.PanicIsViolation = true // a panic whose first goroutine has a grpc (non-harness) frame
	return p
}

func init() {
	regProp("C31", wuP("internal/grpcsync.CallbackSerializer", "internal/buffer.Unbounded", "internal/grpcsync.PubSub").doc(
		"Seeded search over interleavings of 1-4 concurrent submitters (TrySchedule/ScheduleOr/ScheduleAndWait, callbacks that block or schedule children) with context cancellation at a random instant; of Put/Get/Load/Close on buffer.Unbounded with 1-2 consumers and Close landing between a receive and its Load; of Publish/Subscribe/unsubscribe. Direct oracles on execution/delivery order and counts at every callback, liveness by goroutine-leak detection, plus a porcupine linearizability check of the Unbounded history against a closable FIFO queue. Sampling, not proof.",
		"Trusted: detrt runtime patch, synctest clock, the oracles. balancer_wrapper.go's use of the serializer is not exercised here.",
		"seeded schedule search over the real primitives; linearizability check of recorded queue histories"))
	regProp("C50", wuP("internal/xds/clients/lrsclient load store (load_store.go)", "internal/xds/clients/lrsclient LRS stream goroutine (lrs_stream.go, lrsclient.go)").doc(
		"Seeded search over interleavings of 2-6 goroutines issuing CallStarted/CallFinished/CallDropped/CallServerLoad on the real load store (every rewritten atomic, sync.Map step and lock is a scheduling point) with the real LRS stream goroutine taking periodic snapshots every 1-20 simulated ns through a scripted clients.Transport, plus the final snapshot of Stop(). Oracles: after every report the cumulative reported counts never exceed the recorded events; each report's in-progress count lies within the min/max of started-finished over the snapshot window; after the final report the sums over all reports equal the recorded events. Sampling, not proof.",
		"Trusted: detrt runtime patch, synctest clock/ticker, the oracles, protobuf (un)marshalling of the reports. The transport never fails (a failed Send legitimately loses the snapshot it carried). clusterimpl/picker.go is not exercised; its call order (CallFinished, then CallServerLoad) is one of the generated orders.",
		"seeded schedule search over the real load store and LRS stream goroutine with a scripted transport"))
	regProp("C54", wuP("health.Server (all of health/server.go)").doc(
		"Seeded search over interleavings of one SetServingStatus/Shutdown/Resume issuer with 1-4 concurrent Watch streams (fake ServerStream whose Send blocks for scripted simulated time, fails at a scripted message, or is cancelled) and concurrent Check callers, driving the real health.Server directly. Oracles at every Send (first message, no consecutive duplicate, sent statuses form a subsequence of the service's status history from the subscription on), at every Check (status held during the call), at quiescence (last sent = current for every live stream) and leak detection for Watch goroutines. Sampling, not proof.",
		"Trusted: detrt runtime patch, synctest clock, the oracles, the sequential status model (mutators are issued by one goroutine; the server serialises them under one mutex anyway). No network, no real grpc.Server.",
		"seeded schedule search over the real health.Server with scripted slow/failing streams"))
	regProp("C57", wuP("internal/cache.TimeoutCache", "internal/grpcsync.Event", "internal/grpcsync.RefCounted").doc(
		"Seeded search over interleavings of Add/Remove/Clear/Len with timer expiry (timeouts of 0-6 ns so that expiry coincides with calls), of 2-6 concurrent Fire/HasFired/Done users, and of TryIncrement/Increment/Decrement by actors that only release references they own. Direct oracles at every callback/return plus a porcupine linearizability check of the cache history (map with expiry events). Sampling, not proof.",
		"Trusted: detrt runtime patch, synctest clock/timers, the oracles. Callers use the API legally (Decrement only on owned references).",
		"seeded schedule search over the real primitives; linearizability check of recorded cache histories"))
}
