package main

// World WLC (weighted round robin, ring hash, RLS) is four worker binaries
// because one world = one test package and every subject has unexported parts:
// wlcwrr is mounted INTO balancer/weightedroundrobin, wlcrh into
// balancer/ringhash, wlcrls into balancer/rls, wlcad into
// balancer/rls/internal/adaptive. The policies are still built through their
// registered balancer.Builder and driven through a recording fake
// balancer.ClientConn; the in-package position is used to read state.

func init() {
	regWorld(&World{Name: "wlcad", Pkg: "google.golang.org/grpc/balancer/rls/internal/adaptive",
		Mounts: map[string]string{"balancer/rls/internal/adaptive": "sim/wlcad"}})

	regWorld(&World{Name: "wlcwrr", Pkg: "google.golang.org/grpc/balancer/weightedroundrobin",
		Mounts:  map[string]string{"balancer/weightedroundrobin": "sim/wlcwrr"},
		Rewrite: []string{"balancer/endpointsharding/endpointsharding.go"}})
	regProp("C36", (&Prop{World: "wlcwrr", QuickRuns: 60000, QuickSecs: 22, ThoroughRuns: 2000000, ThoroughSecs: 420, Batch: 200, RunTimeoutS: 30, PanicIsViolation: true,
		Real: []string{"balancer/weightedroundrobin (balancer.go, scheduler.go) built through its registered balancer.Builder", "balancer/endpointsharding and balancer/pickfirst children underneath", "orca producer (orca/producer.go) for out-of-band reports"},
		Stub: []string{"balancer.ClientConn / SubConn (recording fake; connections succeed at once, health READY is reported as the real channel does without health checking)", "ORCA server: scripted stream behind the fake SubConn's producer ClientConnInterface", "the channel: the run's root goroutine makes every call into the policy", "RPCs: Pick + Done(ServerLoad) from the root goroutine and from bursts of picker goroutines", "clock (synctest)", "goroutine scheduler (detrt)"}}).doc(
		"TODO", "TODO", "TODO"))

	regWorld(&World{Name: "wlcrh", Pkg: "google.golang.org/grpc/balancer/ringhash",
		Mounts:  map[string]string{"balancer/ringhash": "sim/wlcrh"},
		Rewrite: []string{"balancer/endpointsharding/endpointsharding.go"}})
	regProp("C37", (&Prop{World: "wlcrh", QuickRuns: 60000, QuickSecs: 22, ThoroughRuns: 2000000, ThoroughSecs: 420, Batch: 200, RunTimeoutS: 30, PanicIsViolation: true,
		Real: []string{"balancer/ringhash (ringhash.go, ring.go, picker.go) built through its registered balancer.Builder", "balancer/endpointsharding, balancer/lazy and balancer/pickfirst children underneath"},
		Stub: []string{"balancer.ClientConn / SubConn (recording fake; connection attempts end as scripted per endpoint: ok / fail / hang)", "the channel: the run's root goroutine makes every call into the policy and delivers subchannel states", "RPCs: Pick from the root goroutine and from bursts of picker goroutines", "the picker's random source (randUint64 field of every published picker is set by the harness)", "clock (synctest)", "goroutine scheduler (detrt)"}}).doc(
		"TODO", "TODO", "TODO"))

	regWorld(&World{Name: "wlcrls", Pkg: "google.golang.org/grpc/balancer/rls",
		Mounts: map[string]string{"balancer/rls": "sim/wlcrls"}})

	regProp("C41", (&Prop{Parts: []string{"C41rls", "C41ad"}}).doc(
		"Two sub-checks: C41rls (data cache histories on the fake clock against a reference model, with the key-builder clauses as a pure input-generation rider) and C41ad (adaptive throttler timelines through its time seam including clock steps backwards). Sampling, not proof.",
		"The key clauses (key map contents, injectivity of the cache key string) are pure functions of config and request: they are covered only as a rider, the simulation decides the cache and throttler clauses. Known finding key_string_injective (see known_findings.json).",
		"model-based timeline search over the real RLS data cache and adaptive throttler"))

	regProp("C41rls", (&Prop{World: "wlcrls", QuickRuns: 100000, QuickSecs: 20, ThoroughRuns: 2000000, ThoroughSecs: 300, Batch: 300, RunTimeoutS: 20, PanicIsViolation: true,
		Real:   []string{"balancer/rls: dataCache.addEntry/getEntry/updateEntrySize/resize/evictExpiredEntries/resetBackoffState/deleteAndCleanup/stop and lru (cache.go)", "balancer/rls/internal/keys: MakeBuilderMap, BuilderMap.RLSKey, mapToString (rider)"},
		Stub:   []string{"the RLS policy around the cache: harness goroutines in the roles of pickers (getEntry), the control-channel response callback (entry creation/update on success, backoff state and time.AfterFunc timer on failure, as rlsPicker.handleRouteLookupResponse does), the purge ticker, config updates (resize) and the control-channel state monitor (resetBackoffState), all under one mutex in the role of cacheMu", "clock (synctest)", "goroutine scheduler (detrt)"},
		Assume: []string{"the cache is used under the policy's mutex, a key is never added twice, and no response arrives for a key whose backoff timer is pending (the policy sends no request during backoff)", "an entry that becomes evictable / expires at the very instant of the pass may go either way"}}).doc(
		"Seeded histories of get / response-success / response-failure (with backoff timer) / pre-sized add / resize / purge / backoff-reset operations by 1-4 goroutines on the fake clock (gaps of 0 ns to 10 s placed on and around the 5 s minimum-eviction age, expiry and backoff deadlines), against a reference model (recency list, sizes, deadlines) advanced in the same critical section. After every operation: accounted size == sum of the entries' sizes; recency list and entry map hold the same keys; the set of cached keys equals the reference (an LRU pass evicts from the least recently used end and stops at the first entry whose minimum age has not passed; a purge removes exactly the entries whose data and backoff expiry are both over); the 'backoff cancelled' result matches the pending timers of the evicted entries. At the end everything is made evictable and the cache is shrunk one unit at a time: the eviction order must be the reference recency order. Sampling, not proof.",
		"Trusted: the reference model. The key-builder part is a pure input-generation rider (generated RouteLookupConfigs and requests, incl. header values that contain the separators of the string form): key map == reference of the statement, and requests for one path with different key maps must have different cache key strings. The entry size formula belongs to the picker and is supplied by the harness.",
		"model-based history search over the real RLS data cache on the fake clock; key builder as pure rider"))

	regProp("C41ad", (&Prop{World: "wlcad", QuickRuns: 150000, QuickSecs: 20, ThoroughRuns: 3000000, ThoroughSecs: 240, Batch: 500, RunTimeoutS: 20,
		Real:   []string{"balancer/rls/internal/adaptive: Throttler.ShouldThrottle / RegisterBackendResponse (adaptive.go), lookback.add/sum/advance (lookback.go)"},
		Stub:   []string{"clock seen by the throttler: bubble clock + scripted offset through the timeNowFunc seam (steps forwards and backwards)", "random source: randFunc seam returns the number chosen by the harness", "callers (harness goroutines)", "goroutine scheduler (detrt)"},
		Assume: []string{"the 30 s window is kept in 100 bins (Throttler doc comment): an event whose age is within one bin (300 ms) of 30 s may or may not be counted", "after a clock step backwards an event counts for certain only if it is inside the window for the most advanced clock the throttler has ever seen, and is excluded for certain only if it is older than 30 s for the clock of the question", "ratio_for_accepts 2 and requests_padding 8 (RLS design / Throttler doc comment)"}}).doc(
		"Seeded timelines of RegisterBackendResponse/ShouldThrottle calls on the fake clock with idle gaps around and beyond 30 s, clock steps forwards and backwards (nanoseconds to 90 s, aimed at the window edge and at bin boundaries), and bursts of concurrent callers each seeing its own clock offset. The probability is bracketed from outside: ShouldThrottle is called with a chosen random number just above the largest / just below the smallest probability that the reference window allows. Sampling, not proof.",
		"Trusted: the reference window (list of event timestamps). With clock steps backwards the bracket is an interval, not a point; without them and away from the window edge it is exact (probe bracket_exact).",
		"timeline search over the real adaptive throttler through its time and random seams with a timestamp-list reference"))
}
