package main

func init() {
	regWorld(&World{Name: "wti", Pkg: "google.golang.org/grpc/internal/transport", Mounts: map[string]string{"internal/transport": "sim/wti"}})
	selftestProps = append(selftestProps, "C17wti")
	regProp("C17wti", wti(2500, "internal/transport.writeQuota (flowcontrol.go: init/get/realReplenish), function-style atomics rewritten to yielding ones").doc(
		"Seeded search over interleavings of one sender per stream calling the real writeQuota.get, a loopy-role goroutine calling replenish in chunks, and stream termination (done closed); every atomic, channel operation and select is a scheduling point. Checked at every quiescent point: a sender inside get while quota > 0 or after done is a lost wake-up; quota always equals initial - granted + replenished and is back at the initial value when everything scheduled was written. Sampling, not proof.",
		"Covers the writeQuota clause of C17 only (get/replenish/done, quota back to initial). The NewStream/stream-quota clause (streamsQuotaAvailable) needs a whole client transport against a scripted peer and is handled in the scripted-peer world. One sender per stream is assumed (gRPC forbids concurrent SendMsg on a stream; with two senders the one-slot channel can legitimately leave one waiting).",
		"seeded schedule search over the real writeQuota with a byte ledger"))
	regProp("C05", wtiBig("internal/transport.recvBuffer (put/compactBacklogLocked/load) and recvBufferReader (Read/ReadMessageHeader, server and client flavour; the client flavour with a real ClientStream.Close -> http2Client.closeStream on a minimal transport) in transport.go", "mem.Buffer reference counting (mem/buffers.go)").doc(
		"Seeded search over frame-size sequences (including bursts of more than 1024 sub-56-byte frames, with pooled 1-4 KiB frames mixed in, so that compaction runs and releases pooled buffers), interleavings of the producer's puts with an application reading via Read(n)/ReadMessageHeader of arbitrary sizes, error/EOF injection points (also from a second goroutine), context cancellation, and envconfig.EnableReceiveBufferCompaction on/off. Every payload byte is a function of (frame index, offset); the checker compares every delivered byte with the expected stream, brackets the reported error between the puts that completed before it and those that started after it, requires the error to be sticky with no data after it, flags a read still blocked at quiescence while data or an error is buffered, and uses a tracking, poisoning buffer pool (double free, leak after a complete read, recycled while owned). Sampling, not proof.",
		"DATA payloads are built as framer.readDataFrame builds them (<= 1 KiB: heap slice, larger: pooled); zero-length payloads are not put because no transport puts them (both handleData paths guard dataLen > 0). Client-flavour errors go through http2Client.closeStream (first caller wins), server-flavour errors are raw puts: exactly one per run, except that one run in eight puts several (a peer repeating END_STREAM); this found the nil-buffer Free panic on a second error put, repaired in /repo by 'fix: transport: recvBuffer.put must not free a nil buffer' (mutants/c05_reintroduce_nil_free.diff reverts it). Buffers still queued when a server-side reader abandons the stream on context cancellation are left to the GC by grpc-go and are only counted. The window-update side of transportReader is not part of this check.",
		"seeded schedule and input search over the real recvBuffer/recvBufferReader with attributable payload bytes and a tracking buffer pool"))
	regProp("C16", wti(1500, "internal/transport.controlBuffer (controlbuf.go: executeAndPut/put/get/getOnceLocked/throttle/finish, itemList)").doc(
		"Seeded search over interleavings of reader goroutines (throttle() then put of the control items a transport reader produces), application-side producers (stream-creation requests via executeAndPut, DATA with pooled buffers, window updates, clean-ups), one consumer in the role of loopy (blocking and non-blocking get, stalls) and finish()/done at a random point, for throttle limits 1..8 (maxQueuedControlBufferItems is a package variable in this tree and is set per run). At every quiescent point the real item list is walked: a goroutine inside throttle() with fewer than limit non-HEADERS/DATA items queued, or after finish()/done, is a lost wake-up; after finish() every put is refused with ErrConnClosing without running its callback, every accepted but unconsumed stream-creation request had onOrphaned(ErrConnClosing) exactly once, every DATA buffer went back to the pool exactly once, nothing stays queued. Sampling, not proof.",
		"Which items count towards the limit is the checker's own table taken from the doc comment of maxQueuedControlBufferItems (everything other than HEADERS and DATA), not from isThrottled(). The converse (throttle() must block at the limit) is not part of the statement and only a probe. The end-to-end rider (peer floods PING/SETTINGS/RST while the writer is stalled) belongs to the scripted-peer world.",
		"seeded schedule search over the real controlBuffer with list-walking quiescence oracles and a tracking buffer pool"))
}

// wtiBig: C05 runs cost 1-10 ms (thousands of frames, megabytes of payload).
func wtiBig(real ...string) *Prop {
	p := wti(60, real...)
	p.QuickRuns, p.ThoroughRuns, p.RunTimeoutS = 40000, 1500000, 60
	return p
}

func wti(batch int, real ...string) *Prop {
	return &Prop{World: "wti", QuickRuns: 120000, QuickSecs: 25, ThoroughRuns: 3000000, ThoroughSecs: 420, Batch: batch, RunTimeoutS: 20, PanicIsViolation: true,
		Real: real, Stub: []string{"callers (transport reader, loopy writer, application goroutines) are harness goroutines", "clock (synctest)", "goroutine scheduler (detrt)"}}
}
