package main

func init() {
	regWorld(&World{Name: "wu", Pkg: "google.golang.org/grpc/internal/zzverif/wu", Mounts: map[string]string{"internal/zzverif/wu": "sim/wu"}})
	selftestProps = append(selftestProps, "C29wu")
	regProp("C29wu", wu("internal/idle.Manager (all of idle.go)").doc(
		"Seeded search over interleavings of the atomic steps of OnCallBegin/OnCallEnd/timer callback/ExitIdleMode/Close of the real idle.Manager (every atomic and lock is a scheduling point), with idle timeouts of nanoseconds so expiry races with calls; oracle checked at every enforcer callback and every call boundary. Sampling, not proof.",
		"Trusted: detrt runtime patch, synctest clock, the oracle. clientconn.go's use of the manager is exercised separately in the end-to-end world.",
		"seeded schedule search over the real idle.Manager with a recording enforcer"))
}

func wu(real ...string) *Prop {
	return &Prop{World: "wu", QuickRuns: 120000, QuickSecs: 25, ThoroughRuns: 3000000, ThoroughSecs: 420, Batch: 500, RunTimeoutS: 20,
		Real: real, Stub: []string{"callers are harness goroutines", "clock (synctest)", "goroutine scheduler (detrt)"}}
}
