package main

func init() {
	regWorld(&World{Name: "wu", Pkg: "google.golang.org/grpc/internal/zzverif/wu", Mounts: map[string]string{"internal/zzverif/wu": "sim/wu"}})
	selftestProps = append(selftestProps, "C29wu")
	c29 := wu("internal/idle.Manager (all of idle.go)")
	// the deepest race seeded so far (a whole short RPC between the timer's
	// checks and its CAS plus a third caller's increment between its re-check
	// and its undo) shows about once in 10^5 runs
	c29.QuickRuns, c29.QuickSecs = 350000, 60
	regProp("C29wu", c29.doc(
		"Seeded search over interleavings of the atomic steps of OnCallBegin/OnCallEnd/timer callback/ExitIdleMode/Close of the real idle.Manager (every atomic and lock is a scheduling point), with idle timeouts of nanoseconds so expiry races with calls; oracle checked at every enforcer callback and every call boundary. Sampling, not proof.",
		"Trusted: detrt runtime patch, synctest clock, the oracle. clientconn.go's use of the manager is exercised separately in the end-to-end world.",
		"seeded schedule search over the real idle.Manager with a recording enforcer"))
}

func wu(real ...string) *Prop {
	return &Prop{World: "wu", QuickRuns: 120000, QuickSecs: 25, ThoroughRuns: 3000000, ThoroughSecs: 420, Batch: 500, RunTimeoutS: 20,
		Real: real, Stub: []string{"callers are harness goroutines", "clock (synctest)", "goroutine scheduler (detrt)"}}
}

func init() {
	regProp("C53wu", wu("mem.Buffer / BufferSlice / Reader reference counting (mem/buffers.go, mem/buffer_slice.go), public tiered pools").doc(
		"Generated operation sequences (NewBuffer, Copy, Ref, Free, Slice incl. full-range slices of views, SplitUnsafe, ReadUnsafe, Materialize, MaterializeToBuffer, Reader Read/Close, real pool Get/Put) distributed over 1-3 goroutines on a shared handle table, against a reference model of who holds which reference; a tracking pool records and poisons every Put: the memory of a root is returned exactly once, never while a reference is live, and exactly when the last reference is freed; live references always read the original bytes; zeroing pools hand out zeros, Get(n) has len n and cap >= n.",
		"The unsafe operations (SplitUnsafe, ReadUnsafe) are only applied by a sole owner, as their contract demands.",
		"reference-model check of the mem API with a tracking, poisoning pool"))
}
