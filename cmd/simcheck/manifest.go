package main

import (
	"bytes"
	"encoding/json"
	"os"
	"path/filepath"
	"sort"
)

type naEntry struct {
	ID     string `json:"property_id"`
	Reason string `json:"reason"`
}

// notApplicable: properties that are pure functions of their input (no
// schedule, clock, I/O, peer or fault takes part): DESIGN.md §4.
var notApplicable = []naEntry{
	{"C07", "pure function: grpc-timeout encode/decode of an int64/string; no schedule, clock, I/O or fault to simulate (wire consequence is part of C22)"},
	{"C08", "pure function: percent-encoding of a byte string; nothing for a scheduler or fault injector to vary (wire consequence is part of C10)"},
	{"C28", "pure in-memory value semantics of metadata.MD and context helpers, single-threaded, no time or I/O"},
	{"C38", "exactness over every value of the random source is enumeration of a pure function; the statement restricts circuit breaking to sequential picks, so there is no interleaving to explore"},
	{"C45", "pure function bytes -> update; totality/invariants of unmarshalling have no schedule, clock or fault dimension"},
	{"C46", "pure function of (route configuration, RPC, random draw)"},
	{"C47", "pure matcher evaluation"},
	{"C48", "pure function of (policy, request attributes)"},
	{"C49", "pure lookup over a validated configuration"},
	{"C55", "pure function of (metadata, payload, limits)"},
}

func writeManifest() {
	goenv := "GOFLAGS=-mod=mod GOPROXY=off GOSUMDB=off GOTOOLCHAIN=local"
	m := map[string]any{
		"version":   1,
		"setup_cmd": "cd /verif && " + goenv + " /opt/veriftools/go1.26.8/bin/go build -o build/simcheck ./cmd/simcheck && ./build/simcheck build all",
		"hooks": map[string]any{
			"guard":            "verif",
			"enable":           "no source hooks in /repo: checks compile /repo's working tree with go1.26.8 `test -c -overlay` (patched runtime = detrt, harness packages mounted under internal/zzverif, function-style atomics rewritten to yielding wrappers in a scratch copy); the build tag `verif` is reserved and unused",
			"baseline_off_cmd": "for m in $(cat /w/out/gomods.txt); do MF=$(cd /repo/$m && . /w/out/goenv.sh && gomodflag); (cd /repo/$m && go test $MF -json -vet=off -count=1 -timeout 25m ./...); done",
			"source_commits":   []string{},
			"add_only":         true,
		},
		"engines": []any{
			map[string]any{"name": "detrt+simcheck", "path": "/verif/build/simcheck", "serves_properties": propOrder(),
				"kind_free_text": "deterministic simulation: real grpc-go code in one process under a patched Go runtime (seeded goroutine picker, select order, timers, rand, map order), synctest fake clock, in-memory simulated network with fault injection, scripted peers; seeded search over schedules and fault plans; replay files with minimised script and decision vector"},
		},
		"notes": "All checks are `simcheck run <id>`; exit 0 held, 1 violation (VIOLATION line + replay file), 2 tool trouble. VERIF_SEED selects the batch seed (default 1). See DESIGN.md.",
	}
	var checks []any
	for _, id := range propOrder() {
		p := props[id]
		checks = append(checks, map[string]any{
			"property_id":         id,
			"quick_cmd":           "./build/simcheck run " + id + " --tier quick",
			"thorough_cmd":        "./build/simcheck run " + id + " --tier thorough",
			"evidence_file":       "/verif/evidence/" + id + ".json",
			"replay_cmd_template": "./build/simcheck replay {path}",
			"engine":              "detrt+simcheck",
			"level_claimed": map[string]any{
				"category":   "exploration",
				"text":       p.LevelText,
				"design_ref": "DESIGN.md §3 " + id,
			},
			"level_note": p.LevelNote,
			"technique":  "deterministic simulation with fault injection: " + p.Technique,
		})
	}
	m["checks"] = checks
	na := append([]naEntry{}, notApplicable...)
	seen := map[string]bool{}
	for _, e := range na {
		seen[e.ID] = true
	}
	if pb, err := os.ReadFile(filepath.Join(verifDir, "properties.jsonl")); err == nil {
		for _, line := range bytes.Split(pb, []byte("\n")) {
			var rec struct {
				ID string `json:"id"`
			}
			if json.Unmarshal(line, &rec) == nil && rec.ID != "" && !readyIDs[rec.ID] && !seen[rec.ID] {
				na = append(na, naEntry{rec.ID, "not claimed: the simulation technique applies (see DESIGN.md §3), but no check for it has been built and validated yet"})
			}
		}
	}
	sort.Slice(na, func(i, j int) bool { return na[i].ID < na[j].ID })
	m["not_applicable"] = na
	b, _ := json.MarshalIndent(m, "", " ")
	if err := os.WriteFile(filepath.Join(verifDir, "MANIFEST.json"), append(b, '\n'), 0o644); err != nil {
		die2("%v", err)
	}
}
