package main

func init() {
	regWorld(&World{Name: "wx51", Pkg: "google.golang.org/grpc/internal/zzverif/wx51", Mounts: map[string]string{"internal/zzverif/wx51": "sim/wx51"},
		Rewrite: []string{"internal/xds/clients/internal/syncutil/event.go", "internal/xds/xdsclient/clientimpl.go"}})
	regProp("C51", (&Prop{World: "wx51", QuickRuns: 3000, QuickSecs: 16, ThoroughRuns: 300000, ThoroughSecs: 480, Batch: 40, RunTimeoutS: 60, PanicIsViolation: true,
		Real: []string{"internal/xds/resolver: xdsResolver, configSelector, clusterInfo reference counts, serializer", "internal/xds/xdsdepmgr: DependencyManager (LDS/RDS/CDS/EDS watches, cluster subscriptions)", "internal/xds/clients/xdsclient: generic xDS client, ADS stream", "internal/xds/xdsclient/xdsresource: LDS/RDS/CDS/EDS decoders", "internal/grpcsync: CallbackSerializer, RefCounted"},
		Stub: []string{"management server = scripted clients.Transport/Stream (byte level, real envoy v3 protos, no network)", "channel = fake resolver.ClientConn with the SafeConfigSelector discipline (RWMutex)", "one extra HTTP filter whose interceptors record Close", "clock (synctest)", "goroutine scheduler (detrt)"}}).doc(
		"TODO", "TODO", "TODO"))
}
