package main

import "sort"

// Prop is the orchestrator-side description of one claimed property.
type Prop struct {
	World            string
	QuickRuns        int
	QuickSecs        int
	ThoroughRuns     int
	ThoroughSecs     int
	Batch            int
	RunTimeoutS      int // wall-clock watchdog per run
	PanicIsViolation bool
	Real             []string
	Stub             []string
	Assume           []string
	// Parts: this property is decided by several sub-checks (ids with a
	// lower-case suffix, e.g. C14we, C14wt), possibly in different worlds; the
	// parent runs them all and merges their evidence. A parent has no World.
	Parts     []string
	LevelText string
	LevelNote string
	Technique string
}

var worlds = map[string]*World{}
var props = map[string]*Prop{}

// selftestProps are the properties the determinism self-test runs by default
// (one or two per world).
var selftestProps []string

func regWorld(w *World) { worlds[w.Name] = w }

func regProp(id string, p *Prop) {
	if props[id] != nil {
		panic("duplicate property " + id)
	}
	props[id] = p
}

func (p *Prop) doc(level, note, technique string) *Prop {
	p.LevelText, p.LevelNote, p.Technique = level, note, technique
	return p
}

func worldOrder() []string {
	var ws []string
	for w := range worlds {
		ws = append(ws, w)
	}
	sort.Strings(ws)
	return ws
}

func isPart(id string) bool {
	for _, c := range id[1:] {
		if c >= 'a' && c <= 'z' {
			return true
		}
	}
	return false
}

// propOrder lists the claimed properties (parts and unvalidated work in
// progress excluded).
func propOrder() []string {
	var ids []string
	for id := range props {
		if isPart(id) || !readyIDs[id] {
			continue
		}
		ids = append(ids, id)
	}
	sort.Strings(ids)
	return ids
}
