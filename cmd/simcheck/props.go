package main

import "sort"

// Prop is the orchestrator-side description of one claimed property.
type Prop struct {
	World            string
	QuickRuns        int
	QuickSecs        int
	ThoroughRuns     int
	ThoroughSecs     int
	Batch            int
	RunTimeoutS      int // wall-clock watchdog per run
	PanicIsViolation bool
	Real             []string
	Stub             []string
	Assume           []string
	LevelText        string
	LevelNote        string
	Technique        string
}

var worlds = map[string]*World{
	"wu": {Name: "wu", Pkg: "google.golang.org/grpc/internal/zzverif/wu", Mounts: map[string]string{"internal/zzverif/wu": "sim/wu"}},
}

var worldOrder = []string{"wu"}

var selftestProps = []string{"C29"}

func wu(real ...string) *Prop {
	return &Prop{World: "wu", QuickRuns: 120000, QuickSecs: 25, ThoroughRuns: 3000000, ThoroughSecs: 420, Batch: 500, RunTimeoutS: 20,
		Real: real, Stub: []string{"callers are harness goroutines", "clock (synctest)", "goroutine scheduler (detrt)"}}
}

var props = map[string]*Prop{
	"C29": wu("internal/idle.Manager (all of idle.go)").doc(
		"Seeded search over interleavings of the atomic steps of OnCallBegin/OnCallEnd/timer callback/ExitIdleMode/Close of the real idle.Manager (every atomic and lock is a scheduling point), with idle timeouts of nanoseconds so expiry races with calls; oracle checked at every enforcer callback and every call boundary. Sampling, not proof.",
		"Trusted: detrt runtime patch, synctest clock, the oracle. clientconn.go's use of the manager is exercised separately in the end-to-end world.",
		"seeded schedule search over the real idle.Manager with a recording enforcer"),
}

func (p *Prop) doc(level, note, technique string) *Prop {
	p.LevelText, p.LevelNote, p.Technique = level, note, technique
	return p
}

func propOrder() []string {
	var ids []string
	for id := range props {
		ids = append(ids, id)
	}
	sort.Strings(ids)
	return ids
}
