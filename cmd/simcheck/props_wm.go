package main

// World WM (miscellaneous building blocks) is two worker binaries because one
// world = one test package: wmalts is mounted INTO the ALTS record-protocol
// package (its subject is unexported), wmdns is mounted below the DNS resolver
// package (the resolver's test seams live in an internal package that only
// that subtree may import).

func init() {
	regWorld(&World{Name: "wmalts", Pkg: "google.golang.org/grpc/credentials/alts/internal/conn",
		Mounts: map[string]string{"credentials/alts/internal/conn": "sim/wmalts"}})
	regWorld(&World{Name: "wmdns", Pkg: "google.golang.org/grpc/internal/resolver/dns/zzverifwmdns",
		Mounts: map[string]string{"internal/resolver/dns/zzverifwmdns": "sim/wmdns"}})
	selftestProps = append(selftestProps, "C52", "C56")

	regProp("C52", (&Prop{World: "wmalts", QuickRuns: 40000, QuickSecs: 25, ThoroughRuns: 2000000, ThoroughSecs: 480, Batch: 40, RunTimeoutS: 30, PanicIsViolation: true,
		Real:   []string{"credentials/alts/internal/conn: conn.Write / conn.Read / conn.ReadOnReady (record.go), ParseFramedMsg (common.go), Counter (counter.go), aes128gcm and aes128gcmRekey record cryptos incl. rekeyAEAD, crypto/aes + crypto/cipher GCM"},
		Stub:   []string{"network (simnet: seeded segmentation, read-size limits, latency, back-pressure)", "harness conn between ALTS conn and network (parses the length framing, injects flips/drops/duplicates/swaps/truncations, glues write tails to the next write)", "ALTS handshake (both conns are built with NewConnWithMaxFrameSize from a generated key; frame size 0 or 4 KiB..512 KiB per side)", "clock (synctest)", "goroutine scheduler (detrt)"},
		Assume: []string{"frame size limit = whole frame including the 4-byte length field (the meaning the package's own tests give it)", "counter overflow is reached through an in-package seam: the sender's out counter and the receiver's in counter are replaced by CounterFromValue(near-maximum value) of the counter's own width; all nonces between the initial value and that value count as already used"}}).doc(
		"Generated write-size sequences (aimed at record and write-buffer boundaries), read-buffer-size sequences, Read and ReadOnReady, both record protocols, per-side frame sizes, handshake leftover bytes (`protected`), random segmentation/coalescing, and a fault plan at record/byte level, with two real conns. Oracles: every byte any read returns equals the written stream at that position; fault-free directions deliver everything with no error; every record on the wire is within the sender's frame limit; after a fault nothing beyond the intact in-order prefix is ever delivered and a read fails before anything that follows a bad record; no nonce is sealed twice (recorded at the AEAD) including across a counter wrap. Sampling of inputs and fault positions, not proof.",
		"Trusted: the harness framing parser and fault injector, simnet, crypto/aes. The maximum frame size is not fixed by constants: it is the negotiatedMaxFrameSize argument of NewConnWithMaxFrameSize (the handshaker passes min(peer, env GRPC_GO_EXPERIMENTAL_ALTS_MAX_FRAME_SIZE in 4096..512 KiB)), clamped below to 4 KiB; the receiver accepts records up to 1 MiB whatever was negotiated. Flips of the three high bytes of the (unauthenticated, unchecked) message-type field are expected to be harmless rather than detected. The handshake itself is out of scope.",
		"two real ALTS record conns over simnet with a record-level fault-injecting wire and an ideal-receiver model"))

	regProp("C56", (&Prop{World: "wmdns", QuickRuns: 150000, QuickSecs: 25, ThoroughRuns: 4000000, ThoroughSecs: 480, Batch: 300, RunTimeoutS: 60,
		Real:   []string{"internal/resolver/dns: dnsBuilder.Build, dnsResolver.watcher/lookup/lookupHost/lookupSRV/lookupTXT/ResolveNow/Close, parseTarget, formatIP; internal/backoff.DefaultExponential"},
		Stub:   []string{"net.Resolver (fake internal.NetResolver installed through internal.NewNetResolver: scripted results, errors, delays, hangs until the context ends)", "resolver.ClientConn (recording fake; UpdateState may return an error by script)", "callers of ResolveNow/Close (scripted goroutines, some triggered by lookups/reports/timer starts)", "clock (synctest; internal.TimeAfterFunc only adds a notification in front of time.After)", "goroutine scheduler (detrt)"},
		Assume: []string{"a re-resolution request counts once it was made after the end of the previous successful resolution's predecessor (requests are coalesced by the resolver; the oracle needs one distinct ResolveNow call per post-success lookup)", "backoff bounds accept both retry-index conventions: delay after the n-th consecutive failure in [0.8*min(1.6^(n-1),120) s, 1.2*min(1.6^n,120) s]"}}).doc(
		"Seeded timelines of ResolveNow bursts from several goroutines, scripted lookup outcomes (addresses, temporary/timeout/not-found/other errors, unparsable addresses, hangs, ClientConn rejecting the update), minimum resolution interval 30 s/small/zero, resolving timeout, Close at random and at coinciding instants, all under virtual time with the real resolver. Oracles on lookup timestamps: after a successful resolution no lookup before min interval has passed and not without a ResolveNow call that can account for it; after the n-th consecutive failure the retry comes within the documented exponential backoff band; no lookup starts after Close returned; addresses are emitted as ip:port with IPv6 bracketed. Sampling, not proof.",
		"Trusted: the fake NetResolver/ClientConn, the timeline oracle. The target-parsing clause (host, host:port, IPv4, bare/bracketed IPv6, default port 443, trailing colon rejected) is a pure function of the target string: it is covered only as an input-generation rider (targets built from a grammar whose expected host/port is known by construction), the simulation decides the pacing, backoff and close clauses.",
		"real dns resolver against scripted lookups under virtual time with a timeline oracle"))
}
