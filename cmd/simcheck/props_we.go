package main

func init() {
	regWorld(&World{Name: "we", Pkg: "google.golang.org/grpc/internal/zzverif/we", Mounts: map[string]string{"internal/zzverif/we": "sim/we"}})
	selftestProps = append(selftestProps, "C02we")
	regProp("C01we", we().doc(
		"Seeded search over schedules, network segmentations/stalls/cuts and application scripts with a real client and a real server; an independent HTTP/2 decoder on the wire keeps, per sender, the peer-granted connection and stream windows (grants count from delivery, emissions from write) and flags any DATA beyond them, any DATA frame > 16 KiB and any header fragment > the peer's MAX_FRAME_SIZE.",
		"Trusted: x/net/http2 Framer+hpack as the independent decoder, simnet, detrt. Window sizes below 64 KiB, SETTINGS changes mid-stream and adversarial WINDOW_UPDATE orders need the scripted peer (WT world).",
		"wire-tap window ledger over real client<->server runs"))
	regProp("C02we", we().doc(
		"Same runs as C01 with attributable payload bytes (a function of rpc, direction, message index, offset): the tap re-assembles each stream's DATA into gRPC messages and compares every byte, message length and message count with what the application submitted; END_STREAM exactly once, no DATA/HEADERS after own END_STREAM or RST_STREAM; under cancellation, resets, cuts and server stop a stream may end at any prefix but never skip, repeat or reorder.",
		"Trusted: as C01. Completeness is asserted for streams that ended normally (END_STREAM without RST).",
		"wire-tap per-stream byte ledger with attributable payloads"))
	regProp("C29we", we("clientconn.go idle integration (idle.Manager, enterIdleMode/exitIdleMode)").doc(
		"Real channel with idle timeouts of nanoseconds to seconds (virtual time), bursts of RPCs separated by gaps around the timeout, RPCs that stay active across several timeouts, explicit Connect calls; every RPC must end with exactly its handler's status by its deadline (an RPC caught by an idle entry would fail, hang or be re-sent).",
		"End-to-end symptom oracle; the exact interleaving semantics are decided by the C29wu part on the idle.Manager itself.",
		"end-to-end status oracle under tiny idle timeouts"))
	regProp("C09", we().doc(
		"Real client and server over simnet; generated metadata maps (legal key alphabet, mixed case via AppendToOutgoingContext, multi-values, empty values, -bin values with arbitrary bytes, values large enough to need CONTINUATION) on many concurrent RPCs so HPACK state is shared across interleaved header blocks, reserved names and invalid pairs inside user metadata; oracle: handler's incoming metadata equals the client's per key and order, client Header()/Trailer() equal what the handler set, nothing user-supplied travels under a reserved name (wire tap), invalid metadata fails INTERNAL with no HEADERS on the wire.",
		"Input-dominated: the simulation contributes concurrency (shared HPACK tables), segmentation and faults; base64 padding variants from a foreign peer need the scripted peer. content-type is surfaced to handlers by grpc-go and is accepted as transport-added.",
		"end-to-end metadata equality + reserved-name wire filter"))
	regProp("C10", we().doc(
		"Real client and server; handler returns every code 0..16 and out-of-range codes, messages with arbitrary bytes (invalid UTF-8, %, control characters, 20 KB), 0..3 detail protos, with and without response data (trailers-only); oracle in fault-free runs: client status == handler status (code, message with invalid UTF-8 -> U+FFFD, details); with faults/cancel/deadline racing: exactly that or a locally generated code, never a foreign status and never OK for a non-OK handler result.",
		"The allowed local codes under faults are CANCELLED, DEADLINE_EXCEEDED, UNAVAILABLE, INTERNAL.",
		"end-to-end status equality with fault-relaxed oracle"))
	regProp("C22", we().doc(
		"RPCs with deadlines from 1 ns to 48 h (virtual time) and cancellations at random instants, blocked by construction at each blocking point (receive, stream quota via MaxConcurrentStreams, flow control via a handler that never reads, picking via dial hang/fail); oracle at quiescence: client op returned no later than deadline+10 ms (virtual), status after the deadline is DEADLINE_EXCEEDED, handler context deadline is never earlier than the client's absolute deadline, handler contexts waiting for cancellation are released in fault-free runs.",
		"10 ms of virtual slack covers the runtime's injected spin sleeps; 'bounded time' in the statement is interpreted as that slack.",
		"virtual-time deadline oracle at every blocking point"))
	regProp("C24", we().doc(
		"Every error returned by NewStream/SendMsg/RecvMsg in runs with all network fault kinds, dial failures, server Stop/GracefulStop and size limits must carry a gRPC status (status.FromError ok); io.EOF excepted.",
		"The A54 clause (reserved codes from pickers/config selectors/credentials surface as INTERNAL) is covered by the C23 harness policy runs.",
		"status.FromError on every API error under fault injection"))
	regProp("C53we", we("tracking mem.BufferPool installed on both endpoints").doc(
		"A tracking BufferPool (never reuses memory, poisons on Put, detects a second Put of the same buffer by identity) is installed in client and server: no buffer is returned twice, and none is returned while still referenced - poisoning turns use-after-free into payload mismatches caught by the wire byte ledger and the receive-payload oracle; faults: cancel, reset, cut at arbitrary byte, half-close, blackhole, Stop/GracefulStop. Buffers never returned are counted (probe) but not flagged: grpc-go drops unread receive buffers for the GC.",
		"Only buffers that flow through the configured pool are tracked. The mem package API clauses (Ref/Slice/split/Reader) are checked in the primitives world.",
		"tracking buffer pool: exactly-once Put, poison, leak check at teardown"))
}

func we(real ...string) *Prop {
	return &Prop{World: "we", QuickRuns: 3000, QuickSecs: 35, ThoroughRuns: 200000, ThoroughSecs: 600, Batch: 8, RunTimeoutS: 120,
		Real: append([]string{"grpc.ClientConn, pick_first, resolver passthrough, http2Client, loopy writer, controlbuf, flow control, stream.go", "grpc.Server, http2Server, server handler dispatch"}, real...),
		Stub: []string{"network (simnet)", "clock (synctest)", "goroutine scheduler (detrt)", "application = scripted op lists over a raw bytes codec"}}
}
