package main

func init() {
	regWorld(&World{Name: "we", Pkg: "google.golang.org/grpc/internal/zzverif/we", Mounts: map[string]string{"internal/zzverif/we": "sim/we"}})
	selftestProps = append(selftestProps, "C02")
	regProp("C01", we().doc(
		"Seeded search over schedules, network segmentations/stalls/cuts and application scripts with a real client and a real server; an independent HTTP/2 decoder on the wire keeps, per sender, the peer-granted connection and stream windows (grants count from delivery, emissions from write) and flags any DATA beyond them, any DATA frame > 16 KiB and any header fragment > the peer's MAX_FRAME_SIZE.",
		"Trusted: x/net/http2 Framer+hpack as the independent decoder, simnet, detrt. Window sizes below 64 KiB, SETTINGS changes mid-stream and adversarial WINDOW_UPDATE orders need the scripted peer (WT world).",
		"wire-tap window ledger over real client<->server runs"))
	regProp("C02", we().doc(
		"Same runs as C01 with attributable payload bytes (a function of rpc, direction, message index, offset): the tap re-assembles each stream's DATA into gRPC messages and compares every byte, message length and message count with what the application submitted; END_STREAM exactly once, no DATA/HEADERS after own END_STREAM or RST_STREAM; under cancellation, resets, cuts and server stop a stream may end at any prefix but never skip, repeat or reorder.",
		"Trusted: as C01. Completeness is asserted for streams that ended normally (END_STREAM without RST).",
		"wire-tap per-stream byte ledger with attributable payloads"))
}

func we(real ...string) *Prop {
	return &Prop{World: "we", QuickRuns: 3000, QuickSecs: 35, ThoroughRuns: 200000, ThoroughSecs: 600, Batch: 8, RunTimeoutS: 120,
		Real: append([]string{"grpc.ClientConn, pick_first, resolver passthrough, http2Client, loopy writer, controlbuf, flow control, stream.go", "grpc.Server, http2Server, server handler dispatch"}, real...),
		Stub: []string{"network (simnet)", "clock (synctest)", "goroutine scheduler (detrt)", "application = scripted op lists over a raw bytes codec"}}
}
