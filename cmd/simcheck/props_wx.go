package main

func init() {
	regWorld(&World{Name: "wx", Pkg: "google.golang.org/grpc/internal/zzverif/wx", Mounts: map[string]string{"internal/zzverif/wx": "sim/wx"}})
	regProp("C42", wx().doc("tbd", "tbd", "tbd"))
	regProp("C43", wx().doc("tbd", "tbd", "tbd"))
	regProp("C44", wx().doc("tbd", "tbd", "tbd"))
}

func wx(real ...string) *Prop {
	return &Prop{World: "wx", QuickRuns: 6000, QuickSecs: 30, ThoroughRuns: 400000, ThoroughSecs: 540, Batch: 40, RunTimeoutS: 60,
		Real: append([]string{"internal/xds/clients/xdsclient: XDSClient, authority, xdsChannel, adsStreamImpl, adsFlowControl, callback serializers, backoff.RunF"}, real...),
		Stub: []string{"management servers = scripted clients.Transport/Stream (byte level, no network)", "resource types = toy decoders defined by the harness", "clock (synctest)", "goroutine scheduler (detrt)"}}
}
