// simcheck is the orchestrator of the deterministic-simulation checks.
//
//	simcheck run <Cnn> [--tier quick|thorough]
//	simcheck replay <file>
//	simcheck build <world>|all
//	simcheck selftest-determinism [world ...]
//
// Exit codes: 0 property held on everything explored; 1 violation (a line
// "VIOLATION property=<id> replay=<path>" is printed); 2 tool trouble.
package main

import (
	"fmt"
	"os"
	"strconv"
	"time"
)

const verifDir = "/verif"

// repoDir is the tree under test. SIM_REPO overrides it (used to run a check
// against a scratch worktree carrying a deliberate mutation); SIM_BUILD then
// selects a private build directory.
var repoDir = envOr("SIM_REPO", "/repo")
var buildDir = envOr("SIM_BUILD", "/verif/build")

// Evidence and replay files of runs against a scratch tree stay out of /verif.
func evidenceDir() string {
	if os.Getenv("SIM_BUILD") != "" {
		return buildDir + "/evidence"
	}
	return verifDir + "/evidence"
}

func replaysDir() string {
	if os.Getenv("SIM_BUILD") != "" {
		return buildDir + "/replays"
	}
	return verifDir + "/replays"
}

func envOr(k, d string) string {
	if v := os.Getenv(k); v != "" {
		return v
	}
	return d
}

func die2(format string, a ...any) {
	fmt.Fprintf(os.Stderr, "simcheck: "+format+"\n", a...)
	os.Exit(2)
}

func main() {
	if len(os.Args) < 2 {
		die2("usage: simcheck run|replay|build|selftest-determinism ...")
	}
	switch os.Args[1] {
	case "run":
		if len(os.Args) < 3 {
			die2("usage: simcheck run <Cnn> [--tier quick|thorough]")
		}
		tier := os.Getenv("VERIF_TIER")
		for i := 3; i < len(os.Args); i++ {
			if os.Args[i] == "--tier" && i+1 < len(os.Args) {
				tier = os.Args[i+1]
				i++
			}
		}
		if tier == "" {
			tier = "quick"
		}
		if tier != "quick" && tier != "thorough" {
			die2("bad tier %q", tier)
		}
		seed := int64(1)
		if s := os.Getenv("VERIF_SEED"); s != "" {
			v, err := strconv.ParseInt(s, 10, 64)
			if err != nil {
				die2("bad VERIF_SEED %q", s)
			}
			seed = v
		}
		os.Exit(runCheck(os.Args[2], tier, seed))
	case "replay":
		if len(os.Args) < 3 {
			die2("usage: simcheck replay <file>")
		}
		os.Exit(replayFile(os.Args[2]))
	case "build":
		if len(os.Args) < 3 {
			die2("usage: simcheck build <world>|all")
		}
		if os.Args[2] == "all" {
			// the worlds of the claimed checks (work-in-progress worlds are not
			// allowed to break setup)
			need := map[string]bool{}
			for _, id := range propOrder() {
				p := props[id]
				if p.World != "" {
					need[p.World] = true
				}
				for _, part := range p.Parts {
					if pp := props[part]; pp != nil && pp.World != "" {
						need[pp.World] = true
					}
				}
			}
			for _, w := range worldOrder() {
				if !need[w] {
					continue
				}
				if _, err := buildWorld(worlds[w]); err != nil {
					die2("build %s: %v", w, err)
				}
				fmt.Println("built", w)
			}
			return
		}
		w := worlds[os.Args[2]]
		if w == nil {
			die2("unknown world %s", os.Args[2])
		}
		if _, err := buildWorld(w); err != nil {
			die2("build: %v", err)
		}
	case "selftest-determinism":
		os.Exit(selftestDeterminism(os.Args[2:]))
	case "one":
		// simcheck one <Cnn> <seed> [tier]: run one seed with the event log
		if len(os.Args) < 4 {
			die2("usage: simcheck one <Cnn> <seed> [tier]")
		}
		p := props[os.Args[2]]
		if p == nil {
			die2("unknown property")
		}
		bin, err := buildWorld(worlds[p.World])
		if err != nil {
			die2("%v", err)
		}
		sd, _ := strconv.ParseUint(os.Args[3], 10, 64)
		tier := "quick"
		if len(os.Args) > 4 {
			tier = os.Args[4]
		}
		res := runWorker(bin, &Request{Prop: os.Args[2], Mode: "seeds", Tier: tier, Seeds: []uint64{sd}, WantLog: true, WantSc: true}, 10*time.Minute)
		fmt.Println(res.stderr)
		for _, r := range res.replies {
			fmt.Println(string(r.Scenario))
			if r.Outcome != nil {
				for _, l := range r.Outcome.Log {
					fmt.Println(l)
				}
				fmt.Printf("viol=%+v\nprobes=%v faults=%v notes=%v\nstats=%+v deadlock=%v\npanic=%s\n", r.Outcome.Viol, r.Outcome.Probes, r.Outcome.Faults, r.Outcome.Notes, r.Outcome.Stats, r.Outcome.Deadlock, r.Outcome.Panic)
			}
		}
		fmt.Println("exit", res.exit)
	case "gen":
		p := props[os.Args[2]]
		bin, err := buildWorld(worlds[p.World])
		if err != nil {
			die2("%v", err)
		}
		sd, _ := strconv.ParseUint(os.Args[3], 10, 64)
		res := runWorker(bin, &Request{Prop: os.Args[2], Mode: "gen", Tier: "quick", Seeds: []uint64{sd}}, time.Minute)
		for _, r := range res.replies {
			fmt.Println(string(r.Scenario))
		}
	case "manifest":
		writeManifest()
	case "list":
		for _, id := range propOrder() {
			p := props[id]
			fmt.Printf("%s world=%s\n", id, p.World)
		}
	default:
		die2("unknown command %s", os.Args[1])
	}
}
