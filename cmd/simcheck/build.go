package main

import (
	"bytes"
	"crypto/sha256"
	"encoding/json"
	"fmt"
	"go/ast"
	"go/format"
	"go/parser"
	"go/token"
	"os"
	"os/exec"
	"path/filepath"
	"sort"
	"strings"
)

const goBin = "/opt/veriftools/go1.26.8/bin/go"
const goRoot = "/opt/veriftools/go1.26.8"

// World describes one worker test binary.
type World struct {
	Name string
	// Pkg is the import path of the package whose test binary is the worker.
	Pkg string
	// Mounts maps a /repo-relative virtual directory to a /verif-relative
	// directory whose *.go files are overlaid there.
	Mounts map[string]string
	// Rewrite lists /repo-relative files whose function-style atomics are
	// rewritten to the yielding wrappers (done afresh on every build).
	Rewrite []string
}

var commonMounts = map[string]string{
	"internal/zzverif/core":   "sim/core",
	"internal/zzverif/simnet": "sim/simnet",
	"internal/zzverif/tap":    "sim/tap",
	"internal/zzverif/h2peer": "sim/h2peer",
}

func goEnv() []string {
	env := os.Environ()
	env = append(env, "GOFLAGS=-mod=mod", "GOPROXY=off", "GOSUMDB=off", "GOTOOLCHAIN=local", "GOROOT="+goRoot, "CGO_ENABLED=0")
	return env
}

func ensureRT() (string, error) {
	out := filepath.Join(buildDir, "rt")
	cmd := exec.Command("python3", filepath.Join(verifDir, "rt", "mkpatch.py"), goRoot, out)
	b, err := cmd.CombinedOutput()
	if err != nil {
		return "", fmt.Errorf("mkpatch: %v\n%s", err, b)
	}
	return filepath.Join(out, "overlay.json"), nil
}

func writeIfChanged(path string, data []byte) error {
	if old, err := os.ReadFile(path); err == nil && bytes.Equal(old, data) {
		return nil
	}
	if err := os.MkdirAll(filepath.Dir(path), 0o755); err != nil {
		return err
	}
	return os.WriteFile(path, data, 0o644)
}

func ensureModfile() (string, error) {
	dir := buildDir
	mod, err := os.ReadFile(filepath.Join(repoDir, "go.mod"))
	if err != nil {
		return "", err
	}
	extra := "\nrequire (\n\tgithub.com/anishathalye/porcupine v1.3.0\n\tpgregory.net/rapid v1.3.0\n)\n"
	if err := writeIfChanged(filepath.Join(dir, "go.sim.mod"), append(mod, extra...)); err != nil {
		return "", err
	}
	sum, err := os.ReadFile(filepath.Join(repoDir, "go.sum"))
	if err != nil {
		return "", err
	}
	extraSum, err := os.ReadFile(filepath.Join(verifDir, "rt", "extra.sum"))
	if err != nil {
		return "", err
	}
	// keep whatever go added itself on earlier builds
	have := map[string]bool{}
	var lines []string
	for _, src := range [][]byte{sum, extraSum} {
		for _, l := range strings.Split(string(src), "\n") {
			if l != "" && !have[l] {
				have[l] = true
				lines = append(lines, l)
			}
		}
	}
	if err := writeIfChanged(filepath.Join(dir, "go.sim.sum"), []byte(strings.Join(lines, "\n")+"\n")); err != nil {
		return "", err
	}
	return filepath.Join(dir, "go.sim.mod"), nil
}

// rewriteAtomics returns src with atomic.F(..) -> atomic.SimF(..).
func rewriteAtomics(path string) ([]byte, int, error) {
	fset := token.NewFileSet()
	f, err := parser.ParseFile(fset, path, nil, parser.ParseComments)
	if err != nil {
		return nil, 0, err
	}
	name := ""
	for _, im := range f.Imports {
		if im.Path.Value == `"sync/atomic"` {
			name = "atomic"
			if im.Name != nil {
				name = im.Name.Name
			}
		}
	}
	n := 0
	if name != "" {
		ast.Inspect(f, func(nd ast.Node) bool {
			c, ok := nd.(*ast.CallExpr)
			if !ok {
				return true
			}
			sel, ok := c.Fun.(*ast.SelectorExpr)
			if !ok {
				return true
			}
			id, ok := sel.X.(*ast.Ident)
			if !ok || id.Name != name || id.Obj != nil {
				return true
			}
			for _, p := range []string{"Add", "Load", "Store", "Swap", "CompareAndSwap"} {
				for _, t := range []string{"Int32", "Int64", "Uint32", "Uint64", "Uintptr"} {
					if sel.Sel.Name == p+t {
						sel.Sel.Name = "Sim" + p + t
						n++
					}
				}
			}
			return true
		})
	}
	var sb bytes.Buffer
	if err := format.Node(&sb, fset, f); err != nil {
		return nil, 0, err
	}
	return sb.Bytes(), n, nil
}

// allRewrite is applied in every world so that all worlds see the same
// yielding atomics in the anchor packages.
var allRewrite = []string{
	"internal/idle/idle.go",
	"internal/transport/flowcontrol.go",
	"internal/transport/controlbuf.go",
	"internal/transport/http2_client.go",
	"internal/transport/http2_server.go",
	"internal/transport/transport.go",
	"internal/transport/client_stream.go",
	"internal/transport/server_stream.go",
	"internal/grpcsync/event.go",
	"internal/grpcsync/refcounted.go",
	"internal/xds/clients/lrsclient/load_store.go",
	"internal/xds/clients/lrsclient/lrsclient.go",
	"clientconn.go",
	"stream.go",
	"server.go",
	"picker_wrapper.go",
	"balancer_wrapper.go",
	"mem/buffers.go",
	"mem/buffer_pool.go",
}

func buildOverlay(w *World) (string, string, error) {
	rtOv, err := ensureRT()
	if err != nil {
		return "", "", err
	}
	var rt struct{ Replace map[string]string }
	b, err := os.ReadFile(rtOv)
	if err != nil {
		return "", "", err
	}
	if err := json.Unmarshal(b, &rt); err != nil {
		return "", "", err
	}
	repl := rt.Replace
	mounts := map[string]string{}
	for k, v := range commonMounts {
		mounts[k] = v
	}
	for k, v := range w.Mounts {
		mounts[k] = v
	}
	for vdir, rdir := range mounts {
		ents, err := os.ReadDir(filepath.Join(verifDir, rdir))
		if err != nil {
			if os.IsNotExist(err) {
				continue
			}
			return "", "", err
		}
		for _, e := range ents {
			if strings.HasSuffix(e.Name(), ".go") {
				repl[filepath.Join(repoDir, vdir, e.Name())] = filepath.Join(verifDir, rdir, e.Name())
			}
		}
	}
	wdir := filepath.Join(buildDir, w.Name)
	files := append([]string{}, allRewrite...)
	files = append(files, w.Rewrite...)
	for _, rel := range files {
		src := filepath.Join(repoDir, rel)
		if _, err := os.Stat(src); err != nil {
			continue // file renamed/removed in the tree under test: nothing to rewrite
		}
		out, n, err := rewriteAtomics(src)
		if err != nil {
			return "", "", fmt.Errorf("rewrite %s: %v", rel, err)
		}
		if n == 0 {
			continue
		}
		dst := filepath.Join(wdir, "rw", strings.ReplaceAll(rel, "/", "__"))
		if err := writeIfChanged(dst, out); err != nil {
			return "", "", err
		}
		repl[src] = dst
	}
	ob, _ := json.MarshalIndent(map[string]any{"Replace": repl}, "", " ")
	op := filepath.Join(wdir, "overlay.json")
	if err := writeIfChanged(op, ob); err != nil {
		return "", "", err
	}
	// identity of everything that goes into the binary besides /repo
	h := sha256.New()
	keys := make([]string, 0, len(repl))
	for k := range repl {
		keys = append(keys, k)
	}
	sort.Strings(keys)
	for _, k := range keys {
		fb, _ := os.ReadFile(repl[k])
		fmt.Fprintf(h, "%s %d\n", k, len(fb))
		h.Write(fb)
	}
	return op, fmt.Sprintf("%x", h.Sum(nil))[:16], nil
}

// buildWorld (re)builds the worker binary of a world from /repo's current
// working tree. The go build cache makes this cheap when nothing changed.
func buildWorld(w *World) (string, error) {
	ov, _, err := buildOverlay(w)
	if err != nil {
		return "", err
	}
	mf, err := ensureModfile()
	if err != nil {
		return "", err
	}
	bin := filepath.Join(buildDir, w.Name, "worker.test")
	cmd := exec.Command(goBin, "test", "-c", "-vet=off", "-overlay", ov, "-modfile", mf, "-o", bin, w.Pkg)
	cmd.Dir = repoDir
	cmd.Env = goEnv()
	out, err := cmd.CombinedOutput()
	if err != nil {
		return "", fmt.Errorf("go test -c %s: %v\n%s", w.Pkg, err, out)
	}
	return bin, nil
}
