package main

func init() {
	regWorld(&World{Name: "wlx", Pkg: "google.golang.org/grpc/internal/zzverif/wlx", Mounts: map[string]string{"internal/zzverif/wlx": "sim/wlx"},
		Rewrite: []string{"internal/xds/balancer/outlierdetection/balancer.go", "internal/xds/balancer/outlierdetection/callcounter.go"}})
	selftestProps = append(selftestProps, "C39")
	regProp("C39", wlx("internal/xds/balancer/priority (balancer.go, balancer_priority.go, balancer_child.go, ignore_resolve_now.go) with internal/balancergroup, internal/balancer/gracefulswitch, internal/cache.TimeoutCache underneath").doc(
		"Seeded search over schedules and scripts of config updates (add/remove/reorder/re-add priorities, change a child's policy, empty list), child state reports made from the children's own goroutines (also at the exact instant a failover timer fires or a config update is in progress), ResolverError, and waits placed on and around the 10 s failover and 15 min cache deadlines. Oracle at every quiescent point: the started children (observed through ExitIdle reaching exactly them) are the prefix c0..cu of the configured priorities, every ci above cu has failed (TRANSIENT_FAILURE, or CONNECTING with its gRFC A56 failover timer expired / not running), cu is READY/IDLE/within its timeout or the lowest, the parent's latest state+picker is cu's latest report (identified by using the picker), nothing is started with an empty list, every child is closed after Close. Sampling, not proof.",
		"Judged at quiescence only: transient parent pickers between two quiescent points are not judged (the statement's 'always' is read as 'whenever the policy has finished reacting'). Where same-instant events leave the order open (report racing with a restart of the same child, config update that may have restarted a child) the model keeps all possible timer states and asserts only what holds in all of them. A child re-started from the cache gets a fresh timeout (grpc-go's reading of 'initial'). Trusted: detrt, synctest clock, the stubs.",
		"seeded schedule search over the real priority policy with stub children, recording ClientConn and a timer-state reference model"))
	regProp("C40", wlx("internal/xds/balancer/outlierdetection (balancer.go, callcounter.go, subconn_wrapper.go, config.go) with internal/balancer/gracefulswitch underneath").doc(
		"TODO",
		"TODO",
		"seeded schedule search over the real outlier_detection policy with a stub child, fake SubConns, caller goroutines and an observation-following gRFC A50 reference evaluator"))
}

func wlx(real ...string) *Prop {
	return &Prop{World: "wlx", QuickRuns: 60000, QuickSecs: 25, ThoroughRuns: 2500000, ThoroughSecs: 480, Batch: 300, RunTimeoutS: 30,
		Real: real, Stub: []string{"parent balancer.ClientConn / SubConn (recording fake)", "child policies (scripted stubs registered under unique names)", "the channel: the run's root goroutine makes every call into the policy", "clock (synctest)", "goroutine scheduler (detrt)"}}
}
