package main

// Composite properties: decided by several sub-checks, possibly in different
// worlds. A part that is not registered (its world is not built yet) is
// skipped; parts listed here must have been validated like any other check.
func init() {
	regProp("C29", (&Prop{Parts: []string{"C29wu", "C29we"}}).doc(
		"Two parts. C29wu: seeded search over interleavings of the atomic steps of OnCallBegin/OnCallEnd/timer callback/ExitIdleMode/Close of the real idle.Manager (every atomic and lock is a scheduling point), idle timeouts of nanoseconds so expiry races with calls; oracle at every enforcer callback and call boundary. C29we: the real channel with tiny idle timeouts, RPC bursts and Connect calls; every RPC must end with its handler's status. Sampling, not proof.",
		"Trusted: detrt runtime patch, synctest clock, simnet, the oracles.",
		"seeded schedule search over the real idle.Manager with a recording enforcer + end-to-end status oracle under tiny idle timeouts"))
}
