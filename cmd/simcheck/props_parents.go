package main

// Composite properties: decided by several sub-checks, possibly in different
// worlds. A part that is not registered (its world is not built yet) is
// skipped; parts listed here must have been validated like any other check.
func init() {
	regProp("C29", (&Prop{Parts: []string{"C29wu", "C29we"}}).doc(
		"Two parts. C29wu: seeded search over interleavings of the atomic steps of OnCallBegin/OnCallEnd/timer callback/ExitIdleMode/Close of the real idle.Manager (every atomic and lock is a scheduling point), idle timeouts of nanoseconds so expiry races with calls; oracle at every enforcer callback and call boundary. C29we: the real channel with tiny idle timeouts, RPC bursts and Connect calls; every RPC must end with its handler's status. Sampling, not proof.",
		"Trusted: detrt runtime patch, synctest clock, simnet, the oracles.",
		"seeded schedule search over the real idle.Manager with a recording enforcer + end-to-end status oracle under tiny idle timeouts"))
	regProp("C53", (&Prop{Parts: []string{"C53wu", "C53we"}}).doc(
		"Two parts. C53wu: generated operation sequences over the mem API (NewBuffer, Copy, Ref, Free, Slice, SplitUnsafe, ReadUnsafe, Materialize, MaterializeToBuffer, Reader, real pools) on 1-3 goroutines against a reference model, with a tracking pool that records and poisons every Put: memory returned exactly once, never while referenced, exactly when the last reference is freed; live references read the original bytes; zeroing pools hand out zeros. C53we: the same tracking pool installed in a real client and server under cancel, reset, cut, half-close, blackhole, Stop/GracefulStop: no double Put, no use after Put (poison shows up in the wire byte ledger and the receive-payload oracle).",
		"Buffers never returned are only counted in C53we (grpc-go drops unread receive buffers for the GC).",
		"reference-model check of the mem API + tracking, poisoning pool in end-to-end runs"))
	regProp("C01", (&Prop{Parts: []string{"C01we", "C01wt", "C01wts"}}).doc(
		"Three parts, one oracle family (an independent HTTP/2 decoder on the simulated wire keeps, per direction, the stream and connection send windows implied by RFC 9113 from SETTINGS/WINDOW_UPDATE/DATA and flags the first DATA byte beyond either, and every frame above the peer's MAX_FRAME_SIZE). C01we: real client against real server, both directions, windows 1 B..1 MiB, BDP on/off, faults. C01wt: the real client sends to a scripted server that uses every freedom of the RFC (windows lowered below the bytes outstanding, 1-byte updates, updates for closed streams, SETTINGS races). C01wts: the real server sends to a scripted client doing the same.",
		"The scripted peers are stubs; the tap's decoder is x/net/http2's Framer, not grpc-go's.",
		"wire-tap window ledger, end-to-end and against scripted adversarial peers on either side"))
	regProp("C02", (&Prop{Parts: []string{"C02we", "C02wt", "C02wts"}}).doc(
		"Three parts. Attributable payload patterns; the wire tap re-assembles every stream into gRPC messages and compares bytes, lengths, order and count with what the application submitted; END_STREAM exactly once and last; nothing after a stream's own END_STREAM/RST_STREAM. C02we: real client and server under cancel/deadline/reset/cut/half-close/stall. C02wt: real client against a scripted server (RST and trailers mid-message, window boundaries inside the 5-byte prefix). C02wts: real server against a scripted client.",
		"The scripted peers are stubs. A message whose SendMsg returned an error may or may not be on the wire; only complete, in-order prefixes are required then.",
		"wire-tap byte ledger, end-to-end and against scripted peers on either side"))
	regProp("C03", (&Prop{Parts: []string{"C03wt", "C03wts"}}).doc(
		"Two parts (client sender, server sender). Liveness at requested quiescent points: a stream with application bytes queued and both its stream window and the connection window positive must have written them; fairness (round robin between streams with data and credit) is judged only inside quiet phases fenced by a PING/ACK, where the set of eligible streams is known exactly.",
		"Scripted peers are stubs. Outside fenced phases fairness is not asserted.",
		"quiescence liveness oracle over the window ledger + fenced quiet-phase round-robin model"))
	regProp("C04", (&Prop{Parts: []string{"C04wt", "C04wts"}}).doc(
		"Two parts (client receiver, server receiver). A scripted sender that tracks exactly the credit the receiver advertised: class A stays within it while using every byte (padding, arbitrary frame splits, messages of several windows, BDP pings answered after controlled delays) and must never be rejected or stalled, and all payload arrives intact; class B exceeds the stream window by 1..n bytes once the application is provably idle and must be rejected with FLOW_CONTROL_ERROR and deliver nothing beyond the window; the advertised window never exceeds 2^31-1; after the traffic drains the windows return to the configured value minus less than a quarter (the update threshold).",
		"Scripted peers are stubs. The quarter-window slack is the implementation's documented update threshold. Connection-level excess is not rejected by grpc-go (no limit check in trInFlow) and is not asserted.",
		"credit-exact scripted sender with PING-fenced window knowledge; advertised-window ledger on the wire tap"))
	regProp("C14", (&Prop{Parts: []string{"C14we", "C14wt", "C14wts"}}).doc(
		"Three parts. C14we: real client and server, GracefulStop/Stop/MaxConnectionAge racing with RPC starts; every RPC executes at most once on the server unless the client saw it fail, and ends with a status. C14wt: the real client against a scripted server sending one or two GOAWAYs with arbitrary last-stream-ids: no new stream on that connection afterwards, streams above the id fail UNAVAILABLE/are retried transparently, streams at or below it are untouched. C14wts: the real server draining against a scripted client: two-phase GOAWAY, final id covers exactly the streams it serves to completion, none above it is processed.",
		"Scripted peers are stubs.",
		"GOAWAY race exploration with per-attempt wire attribution and quiescence-anchored wire rules"))
	regProp("C15", (&Prop{Parts: []string{"C15wt", "C15wts"}}).doc(
		"Two parts under virtual time with zero network latency. C15wt: client keepalive (Time, Timeout, PermitWithoutStream) against scripted server timelines placed at Time-eps / Time / Time+eps and Timeout-eps / Timeout / Timeout+eps: a silent peer is detected within Time+Timeout, a peer that answers is never closed. C15wts: server keepalive, MaxConnectionIdle/Age/Grace and the enforcement policy (ping strikes, GOAWAY too_many_pings) against a scripted client.",
		"Scripted peers are stubs; complete frames are the unit of 'received'.",
		"virtual-time keepalive timelines against scripted peers with direct observation of close/GOAWAY"))
	regProp("C17", (&Prop{Parts: []string{"C17wti", "C17wt"}}).doc(
		"Two parts. C17wti: the real writeQuota (flowcontrol.go) under seeded interleavings of get/replenish/done with function-style atomics rewritten to scheduling points: a blocked get is released once enough was replenished or the stream ended; quota returns to the initial value. C17wt: stream-quota waiters in a whole client transport against a scripted server (see that part).",
		"One sender per stream is assumed (gRPC forbids concurrent SendMsg on a stream).",
		"seeded schedule search over the real writeQuota + quiescence oracle for stream-quota waiters"))
}
