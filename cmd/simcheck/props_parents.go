package main

// Composite properties: decided by several sub-checks, possibly in different
// worlds. A part that is not registered (its world is not built yet) is
// skipped; parts listed here must have been validated like any other check.
func init() {
	regProp("C29", (&Prop{Parts: []string{"C29wu", "C29we"}}).doc(
		"Two parts. C29wu: seeded search over interleavings of the atomic steps of OnCallBegin/OnCallEnd/timer callback/ExitIdleMode/Close of the real idle.Manager (every atomic and lock is a scheduling point), idle timeouts of nanoseconds so expiry races with calls; oracle at every enforcer callback and call boundary. C29we: the real channel with tiny idle timeouts, RPC bursts and Connect calls; every RPC must end with its handler's status. Sampling, not proof.",
		"Trusted: detrt runtime patch, synctest clock, simnet, the oracles.",
		"seeded schedule search over the real idle.Manager with a recording enforcer + end-to-end status oracle under tiny idle timeouts"))
	regProp("C53", (&Prop{Parts: []string{"C53wu", "C53we"}}).doc(
		"Two parts. C53wu: generated operation sequences over the mem API (NewBuffer, Copy, Ref, Free, Slice, SplitUnsafe, ReadUnsafe, Materialize, MaterializeToBuffer, Reader, real pools) on 1-3 goroutines against a reference model, with a tracking pool that records and poisons every Put: memory returned exactly once, never while referenced, exactly when the last reference is freed; live references read the original bytes; zeroing pools hand out zeros. C53we: the same tracking pool installed in a real client and server under cancel, reset, cut, half-close, blackhole, Stop/GracefulStop: no double Put, no use after Put (poison shows up in the wire byte ledger and the receive-payload oracle).",
		"Buffers never returned are only counted in C53we (grpc-go drops unread receive buffers for the GC).",
		"reference-model check of the mem API + tracking, poisoning pool in end-to-end runs"))
}
