package main

// readyIDs lists the properties whose checks have been validated by the lead
// (clean on the unchanged tree for several seeds, deterministic, sensitive to
// seeded mutations) and are therefore claimed in MANIFEST.json. Everything
// else that is registered is work in progress and is listed as not claimed.
var readyIDs = map[string]bool{
	"C01": true, "C02": true, "C09": true, "C10": true, "C22": true, "C24": true, "C29": true, "C53": true,
	"C31": true, "C50": true, "C54": true, "C57": true, "C52": true, "C56": true,
	"C05": true, "C16": true, "C17": true, "C39": true, "C40": true,
	"C33": true, "C34": true, "C35": true,
	"C18": true, "C19": true, "C20": true, "C21": true, "C25": true, "C27": true, "C58": true,
	"C42": true, "C43": true, "C44": true, "C36": true, "C37": true, "C41": true,
	"C23": true, "C30": true, "C32": true, "C51": true,
	// parts of composite properties
	"C29wu": true, "C29we": true, "C53wu": true, "C53we": true, "C41rls": true, "C41ad": true,
	"C01we": true, "C02we": true, "C17wti": true,
	// scripted-server world (real client)
	"C01wt": true, "C02wt": true, "C03wt": true, "C04wt": true, "C14wt": true, "C15wt": true, "C17wt": true,
	// scripted-client world (real server)
	"C12": true, "C26": true, "C01wts": true, "C02wts": true, "C03wts": true, "C04wts": true, "C14wts": true, "C15wts": true,
	"C03": true, "C04": true, "C06": true, "C11": true, "C13": true, "C14": true, "C15": true, "C14we": true,
}
