package main

import (
	"bufio"
	"bytes"
	"encoding/json"
	"fmt"
	"hash/fnv"
	"os"
	"os/exec"
	"path/filepath"
	"regexp"
	"sort"
	"strings"
	"sync"
	"time"
)

// ---- wire types shared with sim/core (kept in sync by hand) ----

type Violation struct {
	Oracle string `json:"oracle"`
	Msg    string `json:"msg"`
	Seq    uint64 `json:"seq"`
	SimNs  int64  `json:"sim_ns"`
}

type Stats struct {
	Picks      uint64 `json:"picks"`
	Multi      uint64 `json:"multi"`
	Yields     uint64 `json:"yields"`
	Sites      uint64 `json:"sites"`
	SchedHash  uint64 `json:"sched_hash"`
	Diverge    uint64 `json:"diverge"`
	SpinSleeps uint64 `json:"spin_sleeps,omitempty"`
	Deferrals  uint64 `json:"deferrals,omitempty"`
	Mode       string `json:"mode,omitempty"`
	NDec       int    `json:"ndec"`
	Overflow   bool   `json:"overflow,omitempty"`
}

type Outcome struct {
	Viol     []Violation       `json:"violations,omitempty"`
	Probes   map[string]int    `json:"probes,omitempty"`
	Faults   map[string]int    `json:"faults,omitempty"`
	Notes    map[string]string `json:"notes,omitempty"`
	Stats    Stats             `json:"stats"`
	SimNs    int64             `json:"sim_ns"`
	Events   uint64            `json:"events"`
	LogHash  uint64            `json:"log_hash"`
	Panic    string            `json:"panic,omitempty"`
	Deadlock bool              `json:"deadlock,omitempty"`
	Log      []string          `json:"log,omitempty"`
	DecRLE   string            `json:"decisions,omitempty"`
	WallMs   int64             `json:"wall_ms"`
}

type Request struct {
	Prop        string          `json:"prop"`
	Mode        string          `json:"mode"`
	Tier        string          `json:"tier"`
	Seeds       []uint64        `json:"seeds,omitempty"`
	Scenario    json.RawMessage `json:"scenario,omitempty"`
	WantLog     bool            `json:"want_log,omitempty"`
	WantSc      bool            `json:"want_scenario,omitempty"`
	WantDec     bool            `json:"want_dec,omitempty"`
	SampleEvery int             `json:"sample_every,omitempty"`
}

type Reply struct {
	Seed     uint64          `json:"seed"`
	Invalid  string          `json:"invalid,omitempty"`
	Shape    string          `json:"shape,omitempty"`
	Outcome  *Outcome        `json:"outcome,omitempty"`
	Scenario json.RawMessage `json:"scenario,omitempty"`
}

// ---- worker invocation ----

type workerResult struct {
	replies []Reply
	exit    int
	stderr  string
	timeout bool
}

var tmpSeq struct {
	sync.Mutex
	n int
}

func scratchDir() string {
	d := filepath.Join(buildDir, "scratch", fmt.Sprint(os.Getpid()))
	os.MkdirAll(d, 0o755)
	return d
}

func runWorker(bin string, req *Request, limit time.Duration) workerResult {
	tmpSeq.Lock()
	tmpSeq.n++
	id := tmpSeq.n
	tmpSeq.Unlock()
	dir := scratchDir()
	reqPath := filepath.Join(dir, fmt.Sprintf("req%d.json", id))
	outPath := filepath.Join(dir, fmt.Sprintf("out%d.jsonl", id))
	defer os.Remove(reqPath)
	defer os.Remove(outPath)
	rb, _ := json.Marshal(req)
	if err := os.WriteFile(reqPath, rb, 0o644); err != nil {
		return workerResult{exit: 2, stderr: err.Error()}
	}
	cmd := exec.Command(bin, "-test.run", "^TestSimWorker$", "-test.timeout", "0", "-test.count", "1")
	cmd.Dir = dir
	cmd.Env = append(os.Environ(), "GOMAXPROCS=1", "GOGC=off", "SIM_REQ="+reqPath, "SIM_OUT="+outPath, "GOTRACEBACK=all")
	var stderr bytes.Buffer
	cmd.Stderr = &stderr
	cmd.Stdout = &stderr
	if err := cmd.Start(); err != nil {
		return workerResult{exit: 2, stderr: err.Error()}
	}
	done := make(chan error, 1)
	go func() { done <- cmd.Wait() }()
	var res workerResult
	select {
	case err := <-done:
		if err != nil {
			if ee, ok := err.(*exec.ExitError); ok {
				res.exit = ee.ExitCode()
			} else {
				res.exit = 2
			}
		}
	case <-time.After(limit):
		cmd.Process.Kill()
		<-done
		res.timeout = true
		res.exit = 2
	}
	res.stderr = stderr.String()
	if len(res.stderr) > 1<<16 {
		res.stderr = res.stderr[:1<<16]
	}
	f, err := os.Open(outPath)
	if err == nil {
		sc := bufio.NewScanner(f)
		sc.Buffer(make([]byte, 1<<20), 1<<28)
		for sc.Scan() {
			var r Reply
			if err := json.Unmarshal(sc.Bytes(), &r); err == nil {
				res.replies = append(res.replies, r)
			}
		}
		f.Close()
	}
	return res
}

func splitmix(seed uint64, ks ...uint64) uint64 {
	z := seed
	for _, k := range ks {
		z = (z ^ k) * 0x9e3779b97f4a7c15
		z = (z ^ (z >> 30)) * 0xbf58476d1ce4e5b9
		z = (z ^ (z >> 27)) * 0x94d049bb133111eb
		z ^= z >> 31
	}
	return z
}

func strHash(s string) uint64 {
	h := fnv.New64a()
	h.Write([]byte(s))
	return h.Sum64()
}

// ---- fingerprints and known findings ----

var numRe = regexp.MustCompile(`[0-9]+`)

func fingerprint(v Violation) string {
	return v.Oracle + ":" + numRe.ReplaceAllString(v.Msg, "#")
}

type knownFinding struct {
	Property string `json:"property"`
	Status   string `json:"status"` // open | fixed
	Match    string `json:"match"`  // regexp on the violation fingerprint
	What     string `json:"what"`
	Commit   string `json:"commit,omitempty"`
}

func loadKnown() []knownFinding {
	b, err := os.ReadFile(filepath.Join(verifDir, "known_findings.json"))
	if err != nil {
		return nil
	}
	var k struct {
		Findings []knownFinding `json:"findings"`
	}
	if err := json.Unmarshal(b, &k); err != nil {
		die2("known_findings.json: %v", err)
	}
	return k.Findings
}

func matchKnown(known []knownFinding, prop string, v Violation) *knownFinding {
	fp := fingerprint(v)
	for i := range known {
		k := &known[i]
		if k.Property != prop || k.Status != "open" {
			continue
		}
		if ok, _ := regexp.MatchString(k.Match, fp); ok {
			return k
		}
	}
	return nil
}

// ---- the check ----

type runAgg struct {
	runs        int
	invalid     int
	distinct    map[string]bool
	nontrivial  int
	shapes      map[string]bool
	probes      map[string]int
	faults      map[string]int
	simNs       int64
	events      uint64
	picks       uint64
	multi       uint64
	yields      uint64
	sites       uint64
	samples     []json.RawMessage
	sampleNotes []map[string]any
	slowMs      int64
	slowSeed    uint64
	spins       uint64
	deferrals   uint64
	modes       map[string]int
}

// runParts runs every sub-check of a composite property and merges evidence.
func runParts(id string, p *Prop, tier string, seed int64) int {
	t0 := time.Now()
	merged := map[string]any{}
	evals, distinct, violations := 0, 0, 0
	var samples []any
	var assumptions []string
	seenA := map[string]bool{}
	rc := 0
	for _, part := range p.Parts {
		if props[part] == nil || !readyIDs[part] {
			continue // part not built or not validated yet: not claimed
		}
		r := runCheck(part, tier, seed)
		b, err := os.ReadFile(filepath.Join(evidenceDir(), part+".json"))
		if err == nil {
			var ev map[string]any
			if json.Unmarshal(b, &ev) == nil {
				cov, _ := ev["coverage"].(map[string]any)
				merged[part] = cov
				if v, ok := cov["evaluations"].(float64); ok {
					evals += int(v)
				}
				if v, ok := cov["distinct_nontrivial"].(float64); ok {
					distinct += int(v)
				}
				if sm, ok := cov["samples"].([]any); ok && len(sm) > 0 {
					samples = append(samples, map[string]any{"part": part, "sample": sm[0]})
				}
				if as, ok := ev["assumptions"].([]any); ok {
					for _, a := range as {
						if s, ok := a.(string); ok && !seenA[s] {
							seenA[s] = true
							assumptions = append(assumptions, s)
						}
					}
				}
				if v, ok := ev["violations"].(float64); ok {
					violations += int(v)
				}
			}
			os.Remove(filepath.Join(evidenceDir(), part+".json"))
		}
		if r != 0 {
			rc = r
			break
		}
	}
	if rc == 2 {
		return 2
	}
	ev := map[string]any{
		"property_id": id, "tier": tier, "seed": seed, "level": "exploration",
		"coverage": map[string]any{
			"evaluations": evals, "distinct_nontrivial": distinct,
			"rule":    "sum over the parts of this property; each part counts as described in its own coverage block (one evaluation = one simulated run; non-trivial = a fault fired or a scheduling decision had several candidates; distinct by schedule hash, event-log hash, fault multiset, scenario shape)",
			"samples": samples, "parts": merged,
		},
		"assumptions": assumptions, "wall_s": time.Since(t0).Seconds(), "violations": violations,
	}
	b, _ := json.MarshalIndent(ev, "", " ")
	os.MkdirAll(evidenceDir(), 0o755)
	os.WriteFile(filepath.Join(evidenceDir(), id+".json"), b, 0o644)
	if rc == 1 {
		// the part printed "VIOLATION property=<part>": repeat it under the parent id
		fmt.Printf("VIOLATION property=%s replay=%s\n", id, lastReplayPath)
	}
	return rc
}

var lastReplayPath string

// parentOf maps a part id (C14we) to its property id (C14).
func parentOf(id string) string {
	for i, c := range id {
		if i > 0 && c >= 'a' && c <= 'z' {
			return id[:i]
		}
	}
	return id
}

func runCheck(id, tier string, seed int64) int {
	p := props[id]
	if p == nil {
		die2("unknown or unclaimed property %s", id)
	}
	if len(p.Parts) > 0 {
		return runParts(id, p, tier, seed)
	}
	w := worlds[p.World]
	t0 := time.Now()
	bin, err := buildWorld(w)
	if err != nil {
		die2("build world %s failed (tool trouble, not a violation):\n%v", w.Name, err)
	}
	buildS := time.Since(t0).Seconds()
	budget := p.QuickSecs
	maxRuns := p.QuickRuns
	if tier == "thorough" {
		budget, maxRuns = p.ThoroughSecs, p.ThoroughRuns
	}
	if v := os.Getenv("SIM_BUDGET_S"); v != "" {
		fmt.Sscan(v, &budget)
	}
	if v := os.Getenv("SIM_MAX_RUNS"); v != "" {
		fmt.Sscan(v, &maxRuns)
	}
	batch := p.Batch
	if batch <= 0 {
		batch = 20
	}
	nworkers := 16
	if v := os.Getenv("SIM_WORKERS"); v != "" {
		fmt.Sscan(v, &nworkers)
	}
	known := loadKnown()
	kid := parentOf(id)
	agg := &runAgg{distinct: map[string]bool{}, shapes: map[string]bool{}, probes: map[string]int{}, faults: map[string]int{}}
	var mu sync.Mutex
	var firstBad *Reply
	var badList []Reply
	knownHits := map[string]int{}
	toolTrouble := ""
	next := 0
	deadline := time.Now().Add(time.Duration(budget) * time.Second)
	propKey := strHash(id)
	mkSeeds := func(n int) []uint64 {
		mu.Lock()
		defer mu.Unlock()
		if next >= maxRuns || time.Now().After(deadline) || firstBad != nil || toolTrouble != "" {
			return nil
		}
		if next+n > maxRuns {
			n = maxRuns - next
		}
		s := make([]uint64, n)
		for i := range s {
			s[i] = splitmix(uint64(seed), propKey, uint64(next+i))
		}
		next += n
		return s
	}
	absorb := func(r Reply) {
		mu.Lock()
		defer mu.Unlock()
		if r.Invalid != "" {
			agg.invalid++
			return
		}
		o := r.Outcome
		agg.runs++
		if o.WallMs > agg.slowMs {
			agg.slowMs, agg.slowSeed = o.WallMs, r.Seed
		}
		agg.spins += o.Stats.SpinSleeps
		agg.deferrals += o.Stats.Deferrals
		if agg.modes == nil {
			agg.modes = map[string]int{}
		}
		agg.modes[o.Stats.Mode]++
		agg.simNs += o.SimNs
		agg.events += o.Events
		agg.picks += o.Stats.Picks
		agg.multi += o.Stats.Multi
		agg.yields += o.Stats.Yields
		agg.sites += o.Stats.Sites
		for k, v := range o.Probes {
			agg.probes[k] += v
		}
		nf := 0
		fkeys := make([]string, 0, len(o.Faults))
		for k, v := range o.Faults {
			agg.faults[k] += v
			nf += v
			fkeys = append(fkeys, fmt.Sprintf("%s=%d", k, v))
		}
		sort.Strings(fkeys)
		agg.shapes[r.Shape] = true
		if nf > 0 || o.Stats.Multi > 0 {
			key := fmt.Sprintf("%x|%x|%s|%s", o.Stats.SchedHash, o.LogHash, strings.Join(fkeys, ","), r.Shape)
			if !agg.distinct[key] {
				agg.distinct[key] = true
				agg.nontrivial++
			}
		}
		if len(r.Scenario) > 0 && len(o.Viol) == 0 && o.Panic == "" && len(agg.samples) < 3 {
			agg.samples = append(agg.samples, r.Scenario)
			agg.sampleNotes = append(agg.sampleNotes, map[string]any{"seed": r.Seed, "sim_ns": o.SimNs, "events": o.Events, "picks": o.Stats.Picks, "multi_candidate_picks": o.Stats.Multi, "yields": o.Stats.Yields, "probes": o.Probes, "faults": o.Faults})
		}
		viols := append([]Violation{}, o.Viol...)
		if o.Deadlock {
			viols = append(viols, Violation{Oracle: "stuck_goroutines", Msg: "goroutines still blocked when the run ended (after teardown)"})
		}
		if o.Panic != "" && !o.Deadlock {
			viols = append(viols, Violation{Oracle: "panic", Msg: firstLine(o.Panic)})
		}
		var fresh []Violation
		for _, v := range viols {
			if k := matchKnown(known, kid, v); k != nil {
				knownHits[k.What]++
				continue
			}
			fresh = append(fresh, v)
		}
		if len(fresh) > 0 {
			r.Outcome.Viol = fresh
			badList = append(badList, r)
			if firstBad == nil {
				rr := r
				firstBad = &rr
			}
		}
	}
	var wg sync.WaitGroup
	for i := 0; i < nworkers; i++ {
		wg.Add(1)
		go func() {
			defer wg.Done()
			for {
				seeds := mkSeeds(batch)
				if seeds == nil {
					return
				}
				for len(seeds) > 0 {
					req := &Request{Prop: id, Mode: "seeds", Tier: tier, Seeds: seeds, SampleEvery: 7}
					res := runWorker(bin, req, time.Duration(p.RunTimeoutS*len(seeds)+60)*time.Second)
					for _, r := range res.replies {
						absorb(r)
					}
					done := len(res.replies)
					if res.exit == 0 {
						break
					}
					if res.exit == 3 && done > 0 {
						// worker stopped after a deadlock/panic outcome; continue with the rest
						seeds = seeds[done:]
						continue
					}
					// crash or timeout: the run after the last reply is the culprit
					culprit := uint64(0)
					if done < len(seeds) {
						culprit = seeds[done]
					}
					if res.timeout {
						mu.Lock()
						toolTrouble = fmt.Sprintf("worker watchdog timeout at seed %d (prop %s)\n%s", culprit, id, tail(res.stderr, 4000))
						mu.Unlock()
						return
					}
					if p.PanicIsViolation && strings.Contains(res.stderr, "panic:") && grpcFrame(res.stderr) {
						absorb(Reply{Seed: culprit, Outcome: &Outcome{Viol: []Violation{{Oracle: "process_panic", Msg: panicLine(res.stderr)}}}})
						mu.Lock()
						if firstBad != nil && firstBad.Seed == culprit {
							firstBad.Outcome.Panic = tail(res.stderr, 8000)
						}
						mu.Unlock()
						return
					}
					mu.Lock()
					toolTrouble = fmt.Sprintf("worker crashed (exit %d) at seed %d (prop %s)\n%s", res.exit, culprit, id, tail(res.stderr, 6000))
					mu.Unlock()
					return
				}
			}
		}()
	}
	wg.Wait()
	wall := time.Since(t0).Seconds()
	if toolTrouble != "" {
		fmt.Fprintln(os.Stderr, "simcheck: TOOL TROUBLE:", toolTrouble)
		return 2
	}
	if agg.runs == 0 {
		die2("no runs completed")
	}
	violations := 0
	replayPath := ""
	if firstBad != nil {
		violations = len(badList)
		var ok bool
		replayPath, ok = confirmAndMinimise(id, p, bin, tier, firstBad)
		if !ok {
			fmt.Fprintf(os.Stderr, "simcheck: violation at seed %d did not reproduce in a fresh process: tool trouble\n%+v\n", firstBad.Seed, firstBad.Outcome.Viol)
			return 2
		}
	}
	writeEvidence(id, p, tier, seed, agg, wall, buildS, violations, knownHits)
	for what, n := range knownHits {
		fmt.Printf("KNOWN-FINDING: property=%s %s (seen in %d runs)\n", parentOf(id), what, n)
	}
	fmt.Printf("simcheck %s tier=%s seed=%d runs=%d distinct_nontrivial=%d sim_s=%.1f wall_s=%.1f build_s=%.1f slowest_run=%dms(seed %d) spin_sleeps=%d\n", id, tier, seed, agg.runs, agg.nontrivial, float64(agg.simNs)/1e9, wall, buildS, agg.slowMs, agg.slowSeed, agg.spins)
	if firstBad != nil {
		for _, v := range firstBad.Outcome.Viol {
			fmt.Printf("  oracle=%s: %s\n", v.Oracle, v.Msg)
		}
		lastReplayPath = replayPath
		if isPart(id) {
			fmt.Printf("violation in part %s replay=%s\n", id, replayPath)
		} else {
			fmt.Printf("VIOLATION property=%s replay=%s\n", id, replayPath)
		}
		return 1
	}
	return 0
}

func firstLine(s string) string {
	if i := strings.IndexByte(s, '\n'); i >= 0 {
		return s[:i]
	}
	return s
}

func tail(s string, n int) string {
	if len(s) > n {
		return s[len(s)-n:]
	}
	return s
}

func panicLine(s string) string {
	for _, l := range strings.Split(s, "\n") {
		if strings.HasPrefix(l, "panic:") || strings.HasPrefix(l, "fatal error:") {
			return l
		}
	}
	return "panic"
}

// grpcFrame: does the first goroutine's stack run through grpc production code?
func grpcFrame(s string) bool {
	i := strings.Index(s, "panic:")
	if i < 0 {
		return false
	}
	s = s[i:]
	if j := strings.Index(s, "\n\ngoroutine "); j >= 0 {
		if k := strings.Index(s[j+2:], "\n\n"); k >= 0 {
			s = s[:j+2+k]
		}
	}
	for _, l := range strings.Split(s, "\n") {
		if strings.Contains(l, "google.golang.org/grpc") && !strings.Contains(l, "zzverif") && !strings.Contains(l, "zz_sim") {
			return true
		}
	}
	return false
}

// ---- evidence ----

func writeEvidence(id string, p *Prop, tier string, seed int64, agg *runAgg, wall, buildS float64, violations int, knownHits map[string]int) {
	samples := []any{}
	for i, s := range agg.samples {
		samples = append(samples, map[string]any{"scenario": s, "run": agg.sampleNotes[i]})
	}
	w := worlds[p.World]
	cov := map[string]any{
		"evaluations":          agg.runs,
		"distinct_nontrivial":  agg.nontrivial,
		"rule":                 "one evaluation = one simulated run of a generated scenario (op script + fault plan + config knobs) under one seeded schedule; a run is non-trivial when at least one injected fault fired or at least one scheduling decision had more than one runnable candidate; distinct = distinct (schedule hash, event-log hash, fired-fault multiset, scenario shape) tuples among those",
		"samples":              samples,
		"runs_per_hour":        int(float64(agg.runs) / wall * 3600),
		"simulated_seconds":    float64(agg.simNs) / 1e9,
		"events":               agg.events,
		"scheduler":            map[string]any{"picks": agg.picks, "multi_candidate_picks": agg.multi, "yield_sites_visited": agg.sites, "yields_taken": agg.yields, "site_delay_deferrals": agg.deferrals, "runs_by_scheduling_mode": agg.modes},
		"faults_fired":         agg.faults,
		"probes":               agg.probes,
		"distinct_shapes":      len(agg.shapes),
		"invalid_scenarios":    agg.invalid,
		"known_findings_seen":  knownHits,
		"world":                w.Name,
		"real_code":            p.Real,
		"stubbed":              p.Stub,
		"build_s":              buildS,
		"spin_sleeps_injected": agg.spins,
	}
	ev := map[string]any{
		"property_id": id,
		"tier":        tier,
		"seed":        seed,
		"level":       "exploration",
		"coverage":    cov,
		"assumptions": append([]string{
			"go1.26.8 toolchain and the unpatched part of its runtime; testing/synctest fake clock",
			"detrt runtime patch (rt/mkpatch.py): seeded goroutine picker, select order, timer ties, rand and map order; GOMAXPROCS=1, no GC inside a run",
			"interleavings are explored at synchronisation operations only (channel ops, select, mutex/rwmutex/cond, atomics); data races are out of scope",
			"seeded sampling, not enumeration: a clean batch is evidence, not proof",
		}, p.Assume...),
		"wall_s":     wall,
		"violations": violations,
	}
	b, _ := json.MarshalIndent(ev, "", " ")
	os.MkdirAll(evidenceDir(), 0o755)
	if err := os.WriteFile(filepath.Join(evidenceDir(), id+".json"), b, 0o644); err != nil {
		die2("write evidence: %v", err)
	}
}
