#!/bin/bash
# usage: tools/seed2verify.sh <id> <demo cmd...>: like seedverify.sh for the second wave (/tmp/seed2-<id> -> seeded/<id>b)
set -u
id="$1"; shift
src=/tmp/seed2-$id
dst=/verif/seeded/${id}b
mkdir -p $dst
cp $src/patch.diff $src/meta.json $dst/ || exit 2
(cd $src && git ls-files --others --exclude-standard | grep -v '^patch.diff$\|^meta.json$' | while read f; do mkdir -p $dst/demo/$(dirname $f); cp $f $dst/demo/$f; done)
wt=/tmp/sv-${id}b
git -C /repo worktree remove --force $wt 2>/dev/null
git -C /repo worktree add -q --detach $wt HEAD || exit 2
cp -r $dst/demo/. $wt/
cd $wt
echo "== demo on the unchanged tree"
"$@" 2>&1 | tail -3
echo "== applying patch"
git apply $dst/patch.diff || { echo "PATCH DOES NOT APPLY"; exit 2; }
go build ./... || { echo "BUILD FAILS"; exit 2; }
echo "== demo on the changed tree"
"$@" 2>&1 | tail -5
cd /
git -C /repo worktree remove --force $wt
git -C /repo worktree remove --force $src
