#!/bin/bash
# usage: tools/mut.sh <patch-file> <Cnn> [extra env...]
# Applies a patch to /repo, runs the quick check of a property, reverts.
# Prints CAUGHT / MISSED / TROUBLE.
set -u
patch="$1"; prop="$2"; shift 2
cd /repo || exit 2
if ! git apply --check "$patch" 2>/dev/null; then echo "TROUBLE patch does not apply: $patch"; exit 2; fi
git apply "$patch"
cd /verif
out=$(env "$@" ./build/simcheck run "$prop" --tier "${TIER:-quick}" 2>&1); rc=$?
git -C /repo checkout -- . 
case $rc in
 1) echo "CAUGHT $prop $(basename $patch): $(echo "$out" | grep -m1 'oracle=' )";;
 0) echo "MISSED $prop $(basename $patch): $(echo "$out" | grep -m1 '^simcheck')";;
 *) echo "TROUBLE $prop $(basename $patch) rc=$rc: $(echo "$out" | tail -5)";;
esac
exit $rc
