#!/bin/bash
# usage: tools/seedrun.sh <seed-id> <check-id> [env...]  -> runs a check against the seeded change in a scratch worktree
id="$1"; chk="$2"; shift 2
wt=/tmp/sr-$id-$chk
git -C /repo worktree remove --force $wt 2>/dev/null
git -C /repo worktree add -q --detach $wt HEAD || exit 2
(cd $wt && git apply /verif/seeded/$id/patch.diff) || { echo "PATCH DOES NOT APPLY"; exit 2; }
cd /verif
out=$(env SIM_REPO=$wt SIM_BUILD=/tmp/sbuild-$id-$chk "$@" ./build/simcheck run $chk --tier ${TIER:-quick} 2>&1); rc=$?
echo "seed=$id check=$chk rc=$rc :: $(echo "$out" | grep -m2 'oracle=\|^simcheck' | tr '\n' ' ' | cut -c1-400)"
git -C /repo worktree remove --force $wt; rm -rf /tmp/sbuild-$id-$chk
exit $rc
