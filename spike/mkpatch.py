import json, os, sys
GR = "/opt/veriftools/go1.26.8"
OUT = "/tmp/rtsim/patched"
repl = {}
def patch(rel, edits, append=""):
    p = os.path.join(GR, "src", rel)
    s = open(p).read()
    for old, new in edits:
        assert s.count(old) == 1, (rel, old, s.count(old))
        s = s.replace(old, new)
    s += append
    o = os.path.join(OUT, rel.replace("/", "__"))
    open(o, "w").write(s)
    repl[p] = o
def add(rel, content):
    p = os.path.join(GR, "src", rel)
    o = os.path.join(OUT, rel.replace("/", "__"))
    open(o, "w").write(content)
    repl[p] = o

patch("runtime/proc.go", [
 ("	if pp.schedtick%61 == 0 && !sched.runq.empty() {", "	if !simsched.enabled && pp.schedtick%61 == 0 && !sched.runq.empty() {"),
 ("	// local runq\n	if gp, inheritTime := runqget(pp); gp != nil {", "	if simsched.enabled {\n		if gp := simPick(pp); gp != nil {\n			return gp, false, false\n		}\n	}\n\n	// local runq\n	if gp, inheritTime := runqget(pp); gp != nil {"),
 ("		pp := allp[i]\n		if pp == nil || atomic.Load(&pp.status) != _Prunning {", "		pp := allp[i]\n		if simsched.enabled {\n			continue\n		}\n		if pp == nil || atomic.Load(&pp.status) != _Prunning {"),
])
patch("runtime/select.go", [
 ("j := cheaprandn(uint32(norder + 1))", "j := simSelectRandn(uint32(norder + 1))"),
 ("func selectgo(cas0 *scase, order0 *uint16, pc0 *uintptr, nsends, nrecvs int, block bool) (int, bool) {\n", "func selectgo(cas0 *scase, order0 *uint16, pc0 *uintptr, nsends, nrecvs int, block bool) (int, bool) {\n	simYield()\n"),
])
patch("runtime/chan.go", [
 ("func chansend(c *hchan, ep unsafe.Pointer, block bool, callerpc uintptr) bool {\n", "func chansend(c *hchan, ep unsafe.Pointer, block bool, callerpc uintptr) bool {\n	simYield()\n"),
 ("func closechan(c *hchan) {\n", "func closechan(c *hchan) {\n	simYield()\n"),
 ("func chanrecv(c *hchan, ep unsafe.Pointer, block bool) (selected, received bool) {\n", "func chanrecv(c *hchan, ep unsafe.Pointer, block bool) (selected, received bool) {\n	simYield()\n"),
])
patch("runtime/time.go", [
 ("			t.rand = cheaprand()", "			t.rand = simTimerRand()"),
])
patch("runtime/preempt.go", [
 ("	return mp.locks == 0 && mp.mallocing == 0 && mp.preemptoff == \"\" && mp.p.ptr().status == _Prunning && mp.curg != nil && readgstatus(mp.curg)&^_Gscan != _Gsyscall", "	if simsched.enabled && mp.curg != nil && mp.curg.bubble != nil {\n		return false\n	}\n	return mp.locks == 0 && mp.mallocing == 0 && mp.preemptoff == \"\" && mp.p.ptr().status == _Prunning && mp.curg != nil && readgstatus(mp.curg)&^_Gscan != _Gsyscall"),
])
patch("runtime/sema.go", [
 ("func internal_sync_nanotime() int64 {\n	return nanotime()", "func internal_sync_nanotime() int64 {\n	if gp := getg(); simsched.enabled && gp.bubble != nil {\n		return gp.bubble.now\n	}\n	return nanotime()"),
])
patch("runtime/rand.go", [
 ("	globalRand.state.Init(*seed)\n	clear(seed[:])", "	for i := range seed {\n		seed[i] = byte(i*7 + 1)\n	}\n	globalRand.state.Init(*seed)\n	clear(seed[:])"),
])
patch("internal/sync/mutex.go", [
 ("func (m *Mutex) Lock() {\n", "func (m *Mutex) Lock() {\n	runtime_simYield()\n"),
], append='''

//go:linkname runtime_simYield
func runtime_simYield()
''')
add("runtime/simsched.go", r'''
package runtime

import (
	"internal/runtime/atomic"
	_ "unsafe"
)

type simschedState struct {
	enabled    bool
	sched      uint64 // xorshift64* state for pick/yield decisions
	sel        uint64 // state for select order
	yieldThr   uint32 // yield iff draw16 >= 65536-yieldThr
	picks      uint64
	yields     uint64
	yieldSites uint64
	multi      uint64
	ntrace     uint32
	trace      [1 << 17][3]uint64
}

var simsched simschedState

func simNext(s *uint64) uint64 {
	x := *s
	x ^= x >> 12
	x ^= x << 25
	x ^= x >> 27
	*s = x
	return x * 2685821657736338717
}

func simRandn(s *uint64, n uint32) uint32 {
	return uint32((uint64(uint32(simNext(s)>>32)) * uint64(n)) >> 32)
}

func simSelectRandn(n uint32) uint32 {
	if !simsched.enabled {
		return cheaprandn(n)
	}
	gp := getg()
	if gp.bubble == nil {
		return cheaprandn(n)
	}
	return simRandn(&simsched.sel, n)
}

func simTimerRand() uint32 {
	if !simsched.enabled {
		return cheaprand()
	}
	return uint32(simNext(&simsched.sel) >> 32)
}

//go:linkname simRand
func simRand() (uint64, bool) {
	if !simsched.enabled || getg().bubble == nil {
		return 0, false
	}
	return simNext(&simsched.sel), true
}

//go:linkname simEnable
func simEnable(seed uint64, yieldThr uint32) {
	if seed == 0 {
		seed = 1
	}
	simsched.sched = seed
	simsched.sel = seed ^ 0x9e3779b97f4a7c15
	simsched.yieldThr = yieldThr
	simsched.picks, simsched.yields, simsched.yieldSites, simsched.multi = 0, 0, 0, 0
	simsched.ntrace = 0
	// Drop any preemption request raised against this goroutine before
	// the simulation took over, so that it cannot land inside the run.
	gp := getg()
	gp.preempt = false
	gp.stackguard0 = gp.stack.lo + stackGuard
	simsched.enabled = true
}

//go:linkname simDisable
func simDisable() (picks, multi, yields, sites uint64) {
	simsched.enabled = false
	return simsched.picks, simsched.multi, simsched.yields, simsched.yieldSites
}

//go:linkname sync_simYield internal/sync.runtime_simYield
func sync_simYield() { simYield() }

//go:linkname simYield
func simYield() {
	if !simsched.enabled {
		return
	}
	gp := getg()
	mp := gp.m
	if gp.bubble == nil || mp.curg != gp || mp.locks != 0 || mp.mallocing != 0 || mp.preemptoff != "" || mp.p.ptr().status != _Prunning {
		return
	}
	simsched.yieldSites++
	if simsched.yieldThr == 0 {
		return
	}
	if uint32(simNext(&simsched.sched)>>48) >= 65536-simsched.yieldThr {
		simsched.yields++
		mcall(gosched_m)
	}
}

// simPick picks the next goroutine for pp. Non-bubble goroutines are served
// first in FIFO order without consuming randomness; among bubble goroutines
// the choice is drawn from the seeded stream.
func simPick(pp *p) *g {
	if !sched.runq.empty() {
		lock(&sched.lock)
		for sched.runq.size > 0 && pp.runqtail-atomic.Load(&pp.runqhead) < uint32(len(pp.runq))-1 {
			gp := sched.runq.pop()
			pp.runq[pp.runqtail%uint32(len(pp.runq))].set(gp)
			atomic.StoreRel(&pp.runqtail, pp.runqtail+1)
		}
		unlock(&sched.lock)
	}
	h := atomic.Load(&pp.runqhead)
	t := pp.runqtail
	n := t - h
	L := uint32(len(pp.runq))
	next := pp.runnext
	// non-bubble first
	if next != 0 && next.ptr().bubble == nil {
		pp.runnext = 0
		return next.ptr()
	}
	for i := uint32(0); i < n; i++ {
		gp := pp.runq[(h+i)%L].ptr()
		if gp.bubble == nil {
			for j := h + i; j != h; j-- {
				pp.runq[j%L] = pp.runq[(j-1)%L]
			}
			atomic.StoreRel(&pp.runqhead, h+1)
			return gp
		}
	}
	// Canonical candidate order: fold runnext into the ring and sort the
	// ring by goid, so that the k-th candidate does not depend on queue
	// perturbations caused by non-bubble goroutines.
	if next != 0 {
		pp.runnext = 0
		pp.runq[t%L].set(next.ptr())
		t++
		atomic.StoreRel(&pp.runqtail, t)
		n++
	}
	if n == 0 {
		return nil
	}
	for i := uint32(1); i < n; i++ {
		x := pp.runq[(h+i)%L]
		j := i
		for j > 0 && pp.runq[(h+j-1)%L].ptr().goid > x.ptr().goid {
			pp.runq[(h+j)%L] = pp.runq[(h+j-1)%L]
			j--
		}
		pp.runq[(h+j)%L] = x
	}
	simsched.picks++
	k := uint32(0)
	if n > 1 {
		simsched.multi++
		k = simRandn(&simsched.sched, n)
	}
	gp := pp.runq[(h+k)%L].ptr()
	for j := h + k; j != h; j-- {
		pp.runq[j%L] = pp.runq[(j-1)%L]
	}
	atomic.StoreRel(&pp.runqhead, h+1)
	simTrace(gp, n, k)
	return gp
}

func simTrace(gp *g, total, k uint32) {
	if simsched.ntrace < uint32(len(simsched.trace)) {
		simsched.trace[simsched.ntrace] = [3]uint64{gp.goid<<16 | uint64(total)<<8 | uint64(k), uint64(gp.sched.pc), uint64(gp.startpc)}
		simsched.ntrace++
	}
}

//go:linkname simGetTrace
func simGetTrace(i uint32) (a, b, c uint64, ok bool) {
	if i >= simsched.ntrace {
		return 0, 0, 0, false
	}
	t := simsched.trace[i]
	return t[0], t[1], t[2], true
}
''')

# --- sync/atomic typed methods + function wrappers
import re as _re
_p = os.path.join(GR, "src", "sync/atomic/type.go")
_t = open(_p).read()
# one-line methods: func (x *T) M(...) ... { return F(...) }
def _inj(m):
    return m.group(1) + "{ runtime_simYield(); " + m.group(2)
_t2, n1 = _re.subn(r'(?m)^(func \(x \*\w+(?:\[T\])?\) \w+\([^)]*\)[^{\n]*)\{ (.*\})$', _inj, _t)
# multi-line methods
_t2, n2 = _re.subn(r'(?m)^(func \(x \*\w+(?:\[T\])?\) \w+\([^)]*\)[^{\n]*\{)\n', lambda m: m.group(1) + "\n\truntime_simYield()\n", _t2)
print("atomic methods patched", n1, n2)
_t2 += "\n//go:linkname runtime_simYield runtime.simYield\nfunc runtime_simYield()\n"
_o = os.path.join(OUT, "sync__atomic__type.go"); open(_o, "w").write(_t2); repl[_p] = _o
_w = ["package atomic\n"]
for ty, go in [("Int32","int32"),("Int64","int64"),("Uint32","uint32"),("Uint64","uint64"),("Uintptr","uintptr")]:
    _w.append(f"func SimAdd{ty}(addr *{go}, delta {go}) {go} {{ runtime_simYield(); return Add{ty}(addr, delta) }}\n")
    _w.append(f"func SimLoad{ty}(addr *{go}) {go} {{ runtime_simYield(); return Load{ty}(addr) }}\n")
    _w.append(f"func SimStore{ty}(addr *{go}, val {go}) {{ runtime_simYield(); Store{ty}(addr, val) }}\n")
    _w.append(f"func SimSwap{ty}(addr *{go}, new {go}) {go} {{ runtime_simYield(); return Swap{ty}(addr, new) }}\n")
    _w.append(f"func SimCompareAndSwap{ty}(addr *{go}, old, new {go}) bool {{ runtime_simYield(); return CompareAndSwap{ty}(addr, old, new) }}\n")
add("sync/atomic/simwrap.go", "".join(_w))
patch("math/rand/v2/rand.go", [
 ("func (runtimeSource) Uint64() uint64 {\n	return runtime_rand()", "func (runtimeSource) Uint64() uint64 {\n	if v, ok := runtime_simRand(); ok {\n		return v\n	}\n	return runtime_rand()"),
], append="\n//go:linkname runtime_simRand runtime.simRand\nfunc runtime_simRand() (uint64, bool)\n")

json.dump({"Replace": repl}, open("/tmp/rtsim/overlay.json", "w"), indent=1)
print("ok", len(repl))
